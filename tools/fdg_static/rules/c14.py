"""C14 - the C++ and the Python spec readers agree (generated tables, hook sets).

R14-a  same automaton: the serialized ATN integer sequences embedded in the generated Python
       parser/lexer (list literal, read with ast) equal those embedded in the generated C++
       parser/lexer (array literal, read with a tokenizer) and the `atn:` section of the .interp
       companions; the .tokens/.interp pairs of both directories are identical; rule-name tables
       equal the rules of language/*.g4 (neither side is stale w.r.t. the grammar).
R14-b  hook sets: every action/predicate named in FandangoLexer.g4 exists as a module-level hook
       and as a method in FandangoLexerBase.py and as macro + method in FandangoLexerBase.h/.cpp.
R14-c  sibling agreement of the simple hooks: the state update each hook performs has the same
       shape on both sides (+=1 / -=1 / =0 / =true / =false / return !x), and both reset() methods
       re-initialise every state variable their side's hooks write.
"""

from __future__ import annotations

import ast
import re
from typing import Optional

from ..core import AnalysisError, call_name, norm, short, walk_local
from ..engine import Engine
from ..report import Check
from .. import g4

PY_DIR = "src/fandango/language/parser"
CPP_DIR = "src/fandango/language/cpp_parser"


def py_atn(eng: Engine, which: str) -> list[int]:
    tree = eng.ix.parse_generated(f"fandango.language.parser.Fandango{which}")
    eng.consult(f"fandango.language.parser.Fandango{which}")
    for n in tree.body:
        if isinstance(n, ast.FunctionDef) and n.name == "serializedATN":
            for r in ast.walk(n):
                if isinstance(r, ast.Return) and isinstance(r.value, ast.List):
                    out = []
                    for e in r.value.elts:
                        if isinstance(e, ast.Constant) and isinstance(e.value, int):
                            out.append(e.value)
                        elif isinstance(e, ast.UnaryOp) and isinstance(e.op, ast.USub) and isinstance(e.operand, ast.Constant):
                            out.append(-e.operand.value)
                        else:
                            raise AnalysisError(f"Fandango{which}.py: non-integer element in serializedATN")
                    return out
    raise AnalysisError(f"Fandango{which}.py: serializedATN() with a list literal not found")


def cpp_atn(text: str, which: str) -> list[int]:
    m = re.search(r"serializedATNSegment\[\]\s*=\s*\{", text)
    if not m:
        raise AnalysisError(f"Fandango{which}.cpp: serializedATNSegment array not found")
    end = text.index("};", m.end())
    body = text[m.end():end]
    body = re.sub(r"//[^\n]*", "", body)
    return [int(x) for x in re.findall(r"-?\d+", body)]


def interp_sections(text: str) -> dict[str, list[str]]:
    out: dict[str, list[str]] = {}
    cur = None
    for ln in text.splitlines():
        if ln.endswith(":") and ln[:-1] in ("token literal names", "token symbolic names", "rule names", "channel names", "mode names", "atn"):
            cur = ln[:-1]
            out[cur] = []
        elif cur is not None:
            if ln.strip() == "" and cur != "atn":
                cur = None
            else:
                out[cur].append(ln)
    return out


def py_rule_names(eng: Engine, which: str) -> list[str]:
    tree = eng.ix.parse_generated(f"fandango.language.parser.Fandango{which}")
    for n in ast.walk(tree):
        if isinstance(n, ast.Assign) and len(n.targets) == 1 and isinstance(n.targets[0], ast.Name) and n.targets[0].id == "ruleNames" and isinstance(n.value, ast.List):
            return [e.value for e in n.value.elts if isinstance(e, ast.Constant)]
    raise AnalysisError(f"Fandango{which}.py: ruleNames not found")


def cpp_string_vectors(text: str) -> list[list[str]]:
    out = []
    for m in re.finditer(r"std::vector<std::string>\{", text):
        depth, i = 1, m.end()
        while i < len(text) and depth:
            if text[i] == "{":
                depth += 1
            elif text[i] == "}":
                depth -= 1
            elif text[i] == '"':
                i += 1
                while text[i] != '"':
                    i += 2 if text[i] == "\\" else 1
            i += 1
        body = text[m.end():i - 1]
        out.append([s for s in re.findall(r'"((?:[^"\\]|\\.)*)"', body)])
    return out


def run(chk: Check, eng: Engine) -> None:
    chk.rule("R14-a", "both front ends embed the same serialized automaton and token tables, and these agree with the .interp files and the .g4 rule lists", floor=8)
    chk.rule("R14-b", "every lexer action/predicate of FandangoLexer.g4 is defined on the Python side (module hook + method) and on the C++ side (macro + method + definition)", floor=8)
    chk.rule("R14-c", "simple lexer hooks perform the same kind of state update on both sides; both reset() methods re-initialise the state their hooks write", floor=6)
    chk.not_decided += ["equivalence of the hand-written indentation / f-string logic (on_newline, nextToken) across languages",
                        "that the shipped sa_fandango_cpp_parser.so was built from these sources",
                        "the speedy-antlr bridge building identical parse-tree objects"]

    pg = g4.load(eng, "Parser")
    lg = g4.load(eng, "Lexer")
    for which, gram in (("Parser", pg), ("Lexer", lg)):
        pa = py_atn(eng, which)
        ctext = eng.read_text(f"{CPP_DIR}/Fandango{which}.cpp")
        ca = cpp_atn(ctext, which)
        if len(pa) < 1000:
            raise AnalysisError(f"Fandango{which}.py: serialized ATN has only {len(pa)} integers")
        if pa == ca:
            chk.ok("R14-a", f"{PY_DIR}/Fandango{which}.py", 0, f"serialized ATN of the {which.lower()}: {len(pa)} integers, identical in .py and .cpp")
        else:
            first = next((i for i, (a, b) in enumerate(zip(pa, ca)) if a != b), min(len(pa), len(ca)))
            chk.bad("R14-a", f"{CPP_DIR}/Fandango{which}.cpp", 0, f"Fandango{which}", f"serialized ATN differs between .py ({len(pa)} ints) and .cpp ({len(ca)} ints), first at index {first}",
                    "the two front ends run different automata: some spec text is tokenised/parsed differently (or rejected by one side only)",
                    keyparts=f"atn-differs|{which}")
        for ext in ("tokens", "interp"):
            a = eng.read_text(f"{PY_DIR}/Fandango{which}.{ext}")
            b = eng.read_text(f"{CPP_DIR}/Fandango{which}.{ext}")
            if a == b:
                chk.ok("R14-a", f"{PY_DIR}/Fandango{which}.{ext}", 0, f"Fandango{which}.{ext} identical in both directories ({len(a)} bytes)")
            else:
                chk.bad("R14-a", f"{CPP_DIR}/Fandango{which}.{ext}", 0, f"Fandango{which}", f"Fandango{which}.{ext} differs between the Python and the C++ directory",
                        "the two generated front ends stem from different grammar versions", keyparts=f"companion-differs|{which}.{ext}")
        secs = interp_sections(eng.read_text(f"{PY_DIR}/Fandango{which}.interp"))
        atn_txt = "".join(secs.get("atn", []))
        ia = [int(x) for x in re.findall(r"-?\d+", atn_txt)]
        if ia == pa:
            chk.ok("R14-a", f"{PY_DIR}/Fandango{which}.interp", 0, "the .interp automaton equals the one embedded in the generated code")
        else:
            chk.bad("R14-a", f"{PY_DIR}/Fandango{which}.interp", 0, f"Fandango{which}", f".interp automaton ({len(ia)} ints) differs from the embedded one ({len(pa)} ints)",
                    "generated code and companion files stem from different generator runs", keyparts=f"interp-atn|{which}")
        # rule names vs grammar
        names = py_rule_names(eng, which)
        if which == "Parser":
            want = list(pg.order)
        else:
            want = [r for r in lg.order if not lg.rules[r].fragment]
            names = [n for n in names if n in lg.rules and not lg.rules[n].fragment] if set(names) - set(want) else names
        if names == want:
            chk.ok("R14-a", f"language/Fandango{which}.g4", 0, f"ruleNames of the generated {which.lower()} equal the {len(want)} rules of the .g4 file, in order")
        else:
            missing = [r for r in want if r not in names]
            extra = [r for r in names if r not in want]
            chk.bad("R14-a", f"language/Fandango{which}.g4", 0, f"Fandango{which}", f"generated ruleNames differ from the grammar (missing {missing[:5]}, extra {extra[:5]})",
                    "the generated front ends are stale w.r.t. the grammar that documents the language", keyparts=f"stale|{which}")
        cvecs = cpp_string_vectors(ctext)
        if any(v == py_rule_names(eng, which) for v in cvecs):
            chk.ok("R14-a", f"{CPP_DIR}/Fandango{which}.cpp", 0, "the C++ rule-name table equals the Python one")
        else:
            chk.bad("R14-a", f"{CPP_DIR}/Fandango{which}.cpp", 0, f"Fandango{which}", "no string table of the C++ side equals the Python ruleNames",
                    "context classes / rule indices differ between the front ends", keyparts=f"cpp-rulenames|{which}")

    # ---- R14-b ---------------------------------------------------------------
    hooks: dict[str, int] = {}
    for r in lg.rules.values():
        for a in r.actions:
            for m in re.finditer(r"([A-Za-z_]\w*)\s*\(\s*\)", a):
                hooks[m.group(1)] = hooks.get(m.group(1), 0) + 1
    if len(hooks) < 6:
        raise AnalysisError(f"only {len(hooks)} lexer hooks found in FandangoLexer.g4")
    base_mod = eng.module("fandango.language.parser.FandangoLexerBase")
    base_cls = base_mod.classes.get("FandangoLexerBase")
    if base_cls is None:
        raise AnalysisError("FandangoLexerBase class not found")
    htxt = eng.read_text(f"{CPP_DIR}/FandangoLexerBase.h")
    ctxt = eng.read_text(f"{CPP_DIR}/FandangoLexerBase.cpp")
    for h in sorted(hooks):
        problems = []
        if h not in base_mod.functions:
            problems.append("no module-level hook in FandangoLexerBase.py")
        else:
            f = base_mod.functions[h]
            calls = [c for c in ast.walk(f.node) if isinstance(c, ast.Call) and isinstance(c.func, ast.Attribute) and c.func.attr == h]
            if not calls:
                problems.append(f"the Python module hook does not forward to lexer.{h}()")
        if h not in base_cls.methods:
            problems.append("no method on the Python FandangoLexerBase")
        if not re.search(rf"#define\s+{h}\(\)\s+FandangoLexerBase::lexer->_{h}\(\)", htxt):
            problems.append("no forwarding macro in FandangoLexerBase.h")
        if not re.search(rf"\b_{h}\s*\(\s*\)\s*;", htxt):
            problems.append("no method declaration in FandangoLexerBase.h")
        if not re.search(rf"FandangoLexerBase::_{h}\s*\(\s*\)\s*\{{", ctxt):
            problems.append("no definition in FandangoLexerBase.cpp")
        if problems:
            chk.bad("R14-b", f"{CPP_DIR}/FandangoLexerBase.h", 0, f"hook {h}", f"lexer hook `{h}` (used {hooks[h]}x in FandangoLexer.g4): " + "; ".join(problems),
                    "one front end cannot execute that lexer action: it fails to build/import or tokenises differently", keyparts=f"hook|{h}")
        else:
            chk.ok("R14-b", f"language/FandangoLexer.g4:{h}", 0, f"hook `{h}` (used {hooks[h]}x): Python module hook + method, C++ macro + declaration + definition")

    # ---- R14-c ---------------------------------------------------------------
    def py_shape(name: str) -> Optional[str]:
        m = base_cls.methods.get(name)
        if m is None:
            return None
        body = [s for s in m.node.body if not (isinstance(s, ast.Expr) and isinstance(s.value, ast.Constant))]  # type: ignore[attr-defined]
        if len(body) != 1:
            return "complex"
        s = body[0]
        if isinstance(s, ast.AugAssign) and isinstance(s.value, ast.Constant):
            return ("+=" if isinstance(s.op, ast.Add) else "-=" if isinstance(s.op, ast.Sub) else "?=") + str(s.value.value)
        if isinstance(s, ast.Assign) and isinstance(s.value, ast.Constant):
            return "=" + str(s.value.value).lower()
        if isinstance(s, ast.Return) and isinstance(s.value, ast.UnaryOp) and isinstance(s.value.op, ast.Not):
            return "return !x"
        return "complex"

    def cpp_shape(name: str) -> Optional[str]:
        m = re.search(rf"FandangoLexerBase::_{name}\s*\(\s*\)\s*\{{(.*?)\n\}}", ctxt, re.S)
        if not m:
            return None
        body = re.sub(r"//[^\n]*", "", m.group(1))
        stmts = [s.strip() for s in body.split(";") if s.strip()]
        if len(stmts) != 1:
            return "complex"
        s = stmts[0]
        if re.fullmatch(r"\w+\+\+", s):
            return "+=1"
        if re.fullmatch(r"\w+--", s):
            return "-=1"
        mm = re.fullmatch(r"\w+\s*=\s*(\w+)", s)
        if mm:
            return "=" + mm.group(1).lower()
        mm = re.fullmatch(r"\w+\s*([+-])=\s*(\d+)", s)
        if mm:
            return f"{mm.group(1)}={mm.group(2)}"
        if re.fullmatch(r"return\s*!\s*\w+", s):
            return "return !x"
        return "complex"

    n_simple = 0
    for h in sorted(hooks):
        ps, cs = py_shape(h), cpp_shape(h)
        if ps is None or cs is None:
            continue
        if ps == "complex" or cs == "complex":
            if ps != cs:
                chk.bad("R14-c", f"{CPP_DIR}/FandangoLexerBase.cpp", 0, f"hook {h}", f"hook `{h}` is a simple state update on one side ({ps} / {cs}) but not on the other",
                        "the two lexers track nesting/python-mode state differently", keyparts=f"hook-shape|{h}")
            else:
                chk.ok("R14-c", f"hook {h}", 0, f"hook `{h}`: multi-statement on both sides (not compared)", nontrivial=False)
            continue
        n_simple += 1
        if ps == cs:
            chk.ok("R14-c", f"hook {h}", 0, f"hook `{h}`: `{ps}` on both sides")
        else:
            chk.bad("R14-c", f"{CPP_DIR}/FandangoLexerBase.cpp", 0, f"hook {h}", f"hook `{h}` performs `{ps}` in Python but `{cs}` in C++",
                    "the lexers disagree on brace/python/f-string state, so NEWLINE/INDENT tokens differ for the same text", keyparts=f"hook-shape|{h}")
    if n_simple < 5:
        raise AnalysisError(f"only {n_simple} simple hooks could be compared")
    # reset completeness on each side
    py_written = set()
    for h in hooks:
        m = base_cls.methods.get(h)
        if m is None:
            continue
        for n in ast.walk(m.node):
            if isinstance(n, (ast.Assign, ast.AugAssign)):
                for t in (n.targets if isinstance(n, ast.Assign) else [n.target]):
                    if isinstance(t, ast.Attribute) and isinstance(t.value, ast.Name) and t.value.id == "self":
                        py_written.add(t.attr)
            if isinstance(n, ast.Call) and isinstance(n.func, ast.Attribute) and n.func.attr in ("append", "pop") and isinstance(n.func.value, ast.Attribute) \
                    and isinstance(n.func.value.value, ast.Name) and n.func.value.value.id == "self":
                py_written.add(n.func.value.attr)
    rs = base_cls.methods.get("reset")
    py_reset = set()
    if rs is not None:
        for n in ast.walk(rs.node):
            if isinstance(n, ast.Assign):
                for t in n.targets:
                    if isinstance(t, ast.Attribute):
                        py_reset.add(t.attr)
    miss = sorted(py_written - py_reset - {"_token"})
    if miss:
        chk.bad("R14-c", f"{PY_DIR}/FandangoLexerBase.py", rs.line if rs else 0, "FandangoLexerBase.reset", f"Python reset() does not re-initialise {miss}",
                "state of the previous spec leaks into the next one on the Python side only", keyparts="py-reset|" + ",".join(miss))
    else:
        chk.ok("R14-c", "FandangoLexerBase.reset (py)", rs.line if rs else 0, f"Python reset() re-initialises {sorted(py_written)}")
    cpp_written = set()
    for h in hooks:
        m = re.search(rf"FandangoLexerBase::_{h}\s*\(\s*\)\s*\{{(.*?)\n\}}", ctxt, re.S)
        if m:
            body = re.sub(r"//[^\n]*", "", m.group(1))
            for v in re.findall(r"\b(\w+)\s*(?:\+\+|--|[+-]?=(?!=))", body):
                if not re.search(rf"\b(?:int|std::string|bool|auto)\s+{v}\b", body):
                    cpp_written.add(v)
            for v in re.findall(r"\b(\w+)\.(?:push_back|pop_back)\(", body):
                cpp_written.add(v)
    m = re.search(r"FandangoLexerBase::reset\s*\(\s*\)\s*\{(.*?)\n\}", ctxt, re.S)
    cpp_reset = set(re.findall(r"\b(\w+)\s*=", m.group(1))) | set(re.findall(r"\b(\w+)\.clear\(\)", m.group(1))) if m else set()
    miss = sorted(cpp_written - cpp_reset)
    if miss:
        chk.bad("R14-c", f"{CPP_DIR}/FandangoLexerBase.cpp", 0, "FandangoLexerBase::reset", f"C++ reset() does not re-initialise {miss}",
                "state of the previous spec leaks into the next one on the C++ side only", keyparts="cpp-reset|" + ",".join(miss))
    else:
        chk.ok("R14-c", "FandangoLexerBase::reset (cpp)", 0, f"C++ reset() re-initialises {sorted(cpp_written)}")

    # ---- R14-d ---------------------------------------------------------------
    # the layout algorithm (NEWLINE / INDENT / DEDENT) is hand-written twice: compare the two implementations as siblings
    chk.rule("R14-d", "the hand-written layout algorithm agrees on both sides: same decision points (conditions of if / while / for, in order) in on_newline, "
             "same arithmetic in the indentation counter, same definitions of the values the conditions test", floor=3)
    from .. import cppmini as cm

    list_attrs = set()
    init = base_cls.methods.get("__init__")
    if init is not None:
        for n in ast.walk(init.node):
            tgt = val = ann = None
            if isinstance(n, ast.AnnAssign):
                tgt, val, ann = n.target, n.value, n.annotation
            elif isinstance(n, ast.Assign) and len(n.targets) == 1:
                tgt, val = n.targets[0], n.value
            if isinstance(tgt, ast.Attribute) and isinstance(tgt.value, ast.Name) and tgt.value.id == "self":
                if isinstance(val, ast.List) or (ann is not None and norm(ann).startswith("list")):
                    list_attrs.add(cm.fold(tgt.attr))
    if not list_attrs:
        raise AnalysisError("FandangoLexerBase.__init__: no list attribute found")

    def strip_self(c):
        if isinstance(c, tuple):
            if c and c[0] == "call" and c[1] in (None, ("name", "self"), ("name", "this")):
                return ("call", None, c[2], tuple(strip_self(a) for a in c[3]))
            return tuple(strip_self(x) for x in c)
        return c

    PAIRS = [("FandangoLexerBase::_on_newline", "on_newline", False), ("FandangoLexerBase::getIndentationCount", "get_indentation_count", True)]
    for cname, pname, full in PAIRS:
        pm_ = base_cls.methods.get(pname)
        if pm_ is None:
            raise AnalysisError(f"FandangoLexerBase.{pname} not found on the Python side")
        try:
            cst = cm.parse_function(ctxt, cname)
            sc = cm.skeleton_cpp(cst, list_attrs)
            uc = cm.updates_cpp(cst, list_attrs)
        except cm.CppError as e:
            raise AnalysisError(f"{cname}: the C++ reader does not understand the function ({e})")
        # locals that exist on one side only name a sub-condition (`inside_brackets = self.opened > 0`): compare with them inlined
        cpp_names = {x[1][1] for x in uc if x[0] == "assign" and x[1][0] == "name"}
        py_body = _inline_private_locals(pm_.node, {cm.fold(n) for n in cpp_names})  # type: ignore[arg-type]
        sp = cm.skeleton_py(py_body, list_attrs)
        up = cm.updates_py(py_body, list_attrs)
        where = f"{pname} / {cname}"
        if [strip_self(x) for x in sc] == [strip_self(x) for x in sp]:
            chk.ok("R14-d", where, pm_.line, f"{len(sp)} decision point(s) agree: " + "; ".join(cm.show(x) for x in sp))
        else:
            diff = [(a, b) for a, b in zip(sc, sp) if strip_self(a) != strip_self(b)]
            what = f"C++ `{cm.show(diff[0][0])}` vs Python `{cm.show(diff[0][1])}`" if diff else f"{len(sc)} decision points in C++, {len(sp)} in Python"
            chk.bad("R14-d", f"{PY_DIR}/FandangoLexerBase.py", pm_.line, where, f"the decision points differ: {what}",
                    "for some spec text the two front ends emit different NEWLINE / INDENT / DEDENT tokens: one accepts what the other rejects, or they extract different code blocks",
                    keyparts=f"layout-skeleton|{pname}")
        # definitions of the values the conditions test (names defined on both sides), or every update for the small numeric function
        dc = {x[1]: x[2] for x in uc if x[0] == "assign" and x[1][0] == "name"}
        dp = {x[1]: x[2] for x in up if x[0] == "assign" and x[1][0] == "name"}
        if full:
            same = [strip_self(x) for x in uc] == [strip_self(x) for x in up]
            if same:
                chk.ok("R14-d", where, pm_.line, "identical arithmetic: " + "; ".join(cm.show(x) for x in up))
            else:
                chk.bad("R14-d", f"{PY_DIR}/FandangoLexerBase.py", pm_.line, where, "the arithmetic differs: C++ [" + "; ".join(cm.show(x) for x in uc) + "] vs Python [" + "; ".join(cm.show(x) for x in up) + "]",
                        "the two lexers compute different indentation widths for the same whitespace (tabs after spaces): blocks nest differently", keyparts=f"layout-arith|{pname}")
        else:
            used = set()

            def names(c):
                if isinstance(c, tuple):
                    if c and c[0] == "name":
                        used.add(c)
                    for x in c:
                        names(x)
            for x in sp:
                names(x)
            common = [n for n in sorted(used) if n in dc and n in dp]
            bad_defs = [n for n in common if strip_self(dc[n]) != strip_self(dp[n])]
            if bad_defs:
                n0 = bad_defs[0]
                chk.bad("R14-d", f"{PY_DIR}/FandangoLexerBase.py", pm_.line, where, f"`{n0[1]}` is computed differently: C++ `{cm.show(dc[n0])}` vs Python `{cm.show(dp[n0])}`",
                        "the layout decisions are taken on different values", keyparts=f"layout-def|{pname}|{n0[1]}")
            else:
                chk.ok("R14-d", where, pm_.line, f"values tested by the decisions are defined alike on both sides: {[n[1] for n in common]}")

    chk.rule("R14-e", "both lexers close the open blocks at the end of the input in the same way: an unconditional block at the start of nextToken() with the same condition and the same "
             "emitted tokens (drop queued EOFs, NEWLINE, one DEDENT per open block, EOF)", floor=1)
    flush_rule(chk, eng, base_cls, ctxt, list_attrs, strip_self)

    chk.rule("R14-f", "what the C++ input stream removes from the spec text before lexing (a leading byte order mark) is removed for every front end: parse_tree() strips it "
             "before any input stream is built", floor=1)
    input_normalisation_rule(chk, eng)


def input_normalisation_rule(chk: Check, eng: Engine) -> None:
    """R14-f.  The vendored ANTLR C++ runtime drops a leading UTF-8 byte order mark in ANTLRInputStream::load; the Python runtime's InputStream keeps
    every code point.  A spec saved with a BOM is then read by the C++ front end and rejected by the Python one.  The text must therefore be
    normalised where both front ends still share it: in parse_tree(), a re-binding of the contents parameter that removes leading U+FEFF has to
    precede every `InputStream(<contents>)`.  If the C++ runtime stops removing the mark, nothing is required."""
    try:
        cpp = eng.read_text("src/fandango/language/cpp_parser/antlr4-cpp-runtime/ANTLRInputStream.cpp")
    except (OSError, AnalysisError):
        raise AnalysisError("ANTLRInputStream.cpp of the vendored C++ runtime not found")
    import re as _re

    strips = _re.search(r'"\\xef\\xbb\\xbf"', cpp, _re.I) is not None and _re.search(r"strncmp\s*\(\s*data\s*,\s*bom\s*,\s*3\s*\)\s*==\s*0\s*\)\s*\{\s*data\s*\+=\s*3", cpp) is not None
    if "load(" not in cpp:
        raise AnalysisError("ANTLRInputStream.cpp: load() not found")
    pt = eng.func("fandango.language.parse.parse_tree", "parse_tree")
    if not strips:
        chk.ok("R14-f", pt.fq, pt.line, "the C++ input stream does not remove a byte order mark: nothing to mirror")
        return
    params = [p_ for p_ in pt.params()]
    streams = [c for c in walk_local(pt.node) if isinstance(c, ast.Call) and call_name(c) == "InputStream" and c.args]
    if not streams:
        raise AnalysisError("parse_tree: no InputStream(...) construction found")
    BOM = "\ufeff"

    def removes_bom(v: ast.AST, var: str) -> bool:
        # var.lstrip("\ufeff") / var.removeprefix("\ufeff") / var[1:] if var.startswith("\ufeff") else var
        if isinstance(v, ast.Call) and isinstance(v.func, ast.Attribute) and v.func.attr in ("lstrip", "removeprefix") and norm(v.func.value) == var \
                and len(v.args) == 1 and isinstance(v.args[0], ast.Constant) and v.args[0].value == BOM:
            return True
        if isinstance(v, ast.IfExp) and isinstance(v.test, ast.Call) and isinstance(v.test.func, ast.Attribute) and v.test.func.attr == "startswith" \
                and norm(v.test.func.value) == var and v.test.args and isinstance(v.test.args[0], ast.Constant) and v.test.args[0].value == BOM \
                and isinstance(v.body, ast.Subscript) and norm(v.body.value) == var and norm(v.orelse) == var:
            return True
        return False

    for c in streams:
        a = c.args[0]
        if not isinstance(a, ast.Name):
            chk.bad("R14-f", eng.relfile(pt), c.lineno, pt.fq, f"`{short(c, 60)}` is built from an expression this rule cannot follow", "cannot show that the text is normalised", keyparts="stream-arg")
            continue
        var = a.id
        ok = False
        # a top-level statement of parse_tree, before the statement that contains the stream construction, re-binds var without the mark;
        # `if var.startswith(BOM): var = var[1:]` counts as well
        for st in pt.node.body:  # type: ignore[attr-defined]
            if any(x is c for x in ast.walk(st)):
                break
            if isinstance(st, ast.Assign) and len(st.targets) == 1 and isinstance(st.targets[0], ast.Name) and st.targets[0].id == var and removes_bom(st.value, var):
                ok = True
            if isinstance(st, (ast.If, ast.While)) and not st.orelse and isinstance(st.test, ast.Call) and isinstance(st.test.func, ast.Attribute) and st.test.func.attr == "startswith" \
                    and norm(st.test.func.value) == var and st.test.args and isinstance(st.test.args[0], ast.Constant) and st.test.args[0].value == BOM \
                    and any(isinstance(b, ast.Assign) and isinstance(b.targets[0], ast.Name) and b.targets[0].id == var and isinstance(b.value, ast.Subscript) and norm(b.value.value) == var for b in st.body):
                ok = True
        if ok:
            chk.ok("R14-f", pt.fq, c.lineno, f"`{short(c, 50)}`: a leading byte order mark is removed from `{var}` before the front ends part")
        else:
            chk.bad("R14-f", eng.relfile(pt), c.lineno, pt.fq, f"`{short(c, 60)}` is given the spec text as it came in, with a leading byte order mark if it has one",
                    "the C++ input stream (ANTLRInputStream::load) drops a leading UTF-8 BOM, the Python InputStream keeps U+FEFF: a spec saved with a BOM is accepted by the "
                    "C++ front end and rejected by the Python one (`mismatched input '\\ufeff'`)", keyparts=f"bom-not-normalised|{var}")


def _inline_private_locals(fn: ast.FunctionDef, other_side: set) -> list:
    """Body of fn with every local that is assigned exactly once (a plain `name = <expression>` at statement level of the function), is not a
    name the sibling implementation has as well, and whose expression reads nothing that is assigned later, substituted into the conditions
    that use it; the assignment itself is dropped.  Pure renaming of sub-conditions must not look like a difference between the siblings."""
    from .. import cppmini as cm
    import copy
    assigned: dict[str, list] = {}
    for n in ast.walk(fn):
        if isinstance(n, (ast.Assign, ast.AugAssign, ast.AnnAssign, ast.For, ast.NamedExpr)):
            tg = n.targets if isinstance(n, ast.Assign) else [n.target]
            for t in tg:
                for x in ast.walk(t):
                    if isinstance(x, ast.Name):
                        assigned.setdefault(x.id, []).append(n)
    inline: dict[str, ast.AST] = {}
    for st in fn.body:
        if isinstance(st, ast.Assign) and len(st.targets) == 1 and isinstance(st.targets[0], ast.Name):
            nm = st.targets[0].id
            if len(assigned.get(nm, [])) == 1 and cm.fold(nm) not in other_side and isinstance(st.value, (ast.Compare, ast.BoolOp, ast.UnaryOp)) \
                    and not any(isinstance(c, ast.Call) and not (isinstance(c.func, ast.Name) and c.func.id == "len") for c in ast.walk(st.value)):
                inline[nm] = st.value
    if not inline:
        return fn.body

    class Sub(ast.NodeTransformer):
        def visit_Name(self, node: ast.Name):
            if isinstance(node.ctx, ast.Load) and node.id in inline:
                return self.visit(copy.deepcopy(inline[node.id]))
            return node

    out = []
    for st in fn.body:
        if isinstance(st, ast.Assign) and len(st.targets) == 1 and isinstance(st.targets[0], ast.Name) and st.targets[0].id in inline:
            continue
        out.append(ast.fix_missing_locations(Sub().visit(copy.deepcopy(st))))
    return out


def flush_rule(chk: Check, eng: Engine, base_cls, ctxt: str, list_attrs: set, strip_self) -> None:
    """R14-e.  At the end of the input both lexers must close the open blocks: `nextToken()` starts - before it asks the generated lexer for a
    token, and not nested in any other condition - with `if LA(1) == EOF and indents: <drop queued EOFs> NEWLINE, DEDENT for every open block, EOF`.
    The rest of the two functions is organised differently (the C++ side queues, the Python side pops), so only this block is compared: its
    position, its condition, and the tokens it emits in order."""
    from .. import cppmini as cm
    pm_ = base_cls.methods.get("nextToken")
    if pm_ is None:
        raise AnalysisError("FandangoLexerBase.nextToken not found on the Python side")
    try:
        cst = cm.parse_function(ctxt, "FandangoLexerBase::nextToken")
    except cm.CppError as e:
        raise AnalysisError(f"FandangoLexerBase::nextToken: the C++ reader does not understand the function ({e})")

    def mentions(x, words) -> bool:
        t = repr(x).lower()
        return all(w in t for w in words)

    # ---- C++ side
    def cpp_emits(stmts) -> list:
        out = []
        for st in stmts:
            if st[0] == "expr" and st[1][0] == "call" and cm.fold(st[1][2]) == "emittoken":
                arg = st[1][3][0] if st[1][3] else None
                ty = None
                if arg and arg[0] == "call" and cm.fold(arg[2]) == "commontoken" and arg[3] and arg[3][0][0] == "name":
                    ty = arg[3][0][1].split("::")[-1]
                out.append(("emit", ty))
            elif st[0] == "while":
                out.append(("while", strip_self(cm._truth(cm.canon_cpp(st[1], list_attrs), list_attrs)), tuple(cpp_emits(list(st[2])))))
            elif st[0] == "opaque" and mentions(st, ["erase", "eof"]):
                out.append(("drop-queued-eof",))
        return out

    c_first_lexer = next((i for i, st in enumerate(cst) if mentions(st, ["lexer::nexttoken"])), None)
    c_flush = next((i for i, st in enumerate(cst) if st[0] == "if" and mentions(st[1], ["eof"]) and mentions(st[1], ["indents"])), None)

    # ---- Python side
    body = [st for st in pm_.node.body if not (isinstance(st, ast.Expr) and isinstance(st.value, ast.Constant))]  # type: ignore[attr-defined]

    def token_type(call: ast.AST) -> Optional[str]:
        if isinstance(call, ast.Call) and isinstance(call.func, ast.Attribute):
            if call.func.attr == "commonToken" and call.args:
                return norm(call.args[0]).split(".")[-1]
            h = base_cls.methods.get(call.func.attr)
            if h is not None and not call.args:  # createDedent()
                for r in ast.walk(h.node):
                    if isinstance(r, ast.Return) and r.value is not None:
                        return token_type(r.value)
        return None

    def py_emits(stmts) -> list:
        out = []
        for st in stmts:
            if isinstance(st, ast.Expr) and isinstance(st.value, ast.Call) and isinstance(st.value.func, ast.Attribute) and st.value.func.attr == "emitToken":
                out.append(("emit", token_type(st.value.args[0]) if st.value.args else None))
            elif isinstance(st, ast.While):
                out.append(("while", strip_self(cm._truth(cm.canon_py(st.test, list_attrs), list_attrs)), tuple(py_emits(st.body))))
            elif isinstance(st, ast.Assign) and "tokens" in norm(st.targets[0]) and "EOF" in norm(st.value) and any(isinstance(x, (ast.ListComp, ast.GeneratorExp)) or
                                                                                                                  (isinstance(x, ast.Call) and norm(x.func).endswith("filter")) for x in ast.walk(st.value)):
                out.append(("drop-queued-eof",))
        return out

    p_first_lexer = next((i for i, st in enumerate(body) if any(isinstance(x, ast.Call) and isinstance(x.func, ast.Attribute) and x.func.attr == "nextToken" and norm(x.func.value).startswith("super")
                                                                for x in ast.walk(st))), None)
    p_flush = next((i for i, st in enumerate(body) if isinstance(st, ast.If) and "EOF" in norm(st.test) and "indents" in norm(st.test)), None)
    where = "nextToken / FandangoLexerBase::nextToken"
    file = f"{PY_DIR}/FandangoLexerBase.py"
    if c_flush is None or c_first_lexer is None:
        raise AnalysisError("FandangoLexerBase::nextToken (C++): end-of-input block or the call of Lexer::nextToken not found at statement level")
    if p_first_lexer is None:
        raise AnalysisError("FandangoLexerBase.nextToken (Python): the call of super().nextToken() was not found")
    if p_flush is None:
        chk.bad("R14-e", file, pm_.line, where, "the Python nextToken() has no unconditional end-of-input block (`if LA(1) == EOF and indents: ...` at statement level); the C++ side has one",
                "a spec whose last line is inside an open block is closed by the C++ lexer (NEWLINE, DEDENTs, EOF) and left open by the Python lexer: one front end accepts it, the other reports a syntax error",
                keyparts="flush-missing-or-nested")
        return
    problems = []
    if (c_flush < c_first_lexer) != (p_flush < p_first_lexer):
        problems.append("the block runs before the generated lexer is asked on one side only")
    def unqualify(c):
        """`FandangoParser.EOF` (Python attribute) and `FandangoParser::EOF` (C++ qualified name, folded to its last part) are the same constant."""
        if isinstance(c, tuple):
            if len(c) == 3 and c[0] == "attr" and c[1] == ("name", "fandangoparser"):
                return ("name", c[2])
            return tuple(unqualify(x) for x in c)
        return c

    cc = unqualify(strip_self(cm._truth(cm.canon_cpp(cst[c_flush][1], list_attrs), list_attrs)))
    pc = unqualify(strip_self(cm._truth(cm.canon_py(body[p_flush].test, list_attrs), list_attrs)))
    if cc != pc:
        problems.append(f"conditions differ: C++ `{cm.show(cc)}` vs Python `{cm.show(pc)}`")
    ce, pe = cpp_emits(list(cst[c_flush][2])), py_emits(body[p_flush].body)
    if ce != pe:
        problems.append(f"emitted tokens differ: C++ {ce} vs Python {pe}")
    if problems:
        chk.bad("R14-e", file, body[p_flush].lineno, where, "end-of-input handling differs: " + "; ".join(problems),
                "for a spec that ends inside an open block (no final line break, trailing blanks) the two front ends emit different NEWLINE / DEDENT / EOF tokens", keyparts="flush-differs")
    else:
        chk.ok("R14-e", where, body[p_flush].lineno, f"both sides start with `if {cm.show(pc)}` and emit {pe}")


# ------------------------------------------------------------------ self-test variants
from ..mutants import M  # noqa: E402

_PYB = "src/fandango/language/parser/FandangoLexerBase.py"
_CPB = "src/fandango/language/cpp_parser/FandangoLexerBase.cpp"
_CPH = "src/fandango/language/cpp_parser/FandangoLexerBase.h"
_TOK = "src/fandango/language/cpp_parser/FandangoParser.tokens"
_LG4 = "language/FandangoLexer.g4"
_PT = "src/fandango/language/parse/parse_tree.py"
MUTANTS = [
    M("byte-order-mark-left-to-the-front-ends", _PT, "    fan_contents = fan_contents.lstrip(\"\\ufeff\")\n", "", "R14-f"),
    M("byte-order-mark-removed-for-the-legacy-parser-only", _PT, "    fan_contents = fan_contents.lstrip(\"\\ufeff\")\n    if fandango.Fandango.parser != \"legacy\":\n", "    if fandango.Fandango.parser != \"legacy\":\n", "R14-f",
      more=(("        LOGGER.debug(f\"{filename}: setting up legacy .fan parser\")\n", "        LOGGER.debug(f\"{filename}: setting up legacy .fan parser\")\n        fan_contents = fan_contents.lstrip(\"\\ufeff\")\n"),)),
    M("python-flush-keeps-queued-eof", _PYB, "            self.tokens = [\n                token for token in self.tokens if token.type != FandangoParser.EOF\n            ]\n", "", "R14-e"),
    M("python-flush-without-newline", _PYB, "            self.emitToken(self.commonToken(FandangoParser.NEWLINE, \"\\n\"))\n", "", "R14-e"),
    M("python-flush-nested-under-empty-queue", _PYB, "        if self._input.LA(1) == FandangoParser.EOF and len(self.indents) != 0:\n", "        if len(self.tokens) == 0 and self._input.LA(1) == FandangoParser.EOF and len(self.indents) != 0:\n", "R14-e"),
    M("python-bracket-depth-by-truthiness", _PYB, "        if self.opened > 0 or (next_next != -1 and next_ in (10, 13, 35)):\n", "        if self.opened or (next_next != -1 and next_ in (10, 13, 35)):\n", "R14-d"),
    M("python-tab-is-eight-columns", _PYB, "            if c == \"\\t\":\n                count += 8 - count % 8\n", "            if c == \"\\t\":\n                count += 8\n", "R14-d"),
    M("cpp-dedent-while-geq", _CPB, "            while (!indents.empty() && indents.back() > indent) {\n", "            while (!indents.empty() && indents.back() >= indent) {\n", "R14-d"),
    M("python-blank-line-set-loses-cr", _PYB, "next_ in (10, 13, 35)", "next_ in (10, 35)", "R14-d"),
    M("cpp-tokens-stale", _TOK, "INDENT=1\nDEDENT=2\n", "INDENT=1\nDEDENT=2\nEXTRA_TOKEN=999\n", "R14-a"),
    M("grammar-rule-added-not-regenerated", "language/FandangoParser.g4", "kleene: symbol STAR;\n", "kleene: symbol STAR;\nkleene2: symbol STAR STAR;\n", "R14-a"),
    M("python-hook-renamed", _PYB, "def python_end() -> None:", "def python_stop() -> None:", "R14-b"),
    M("cpp-macro-missing", _CPH, "#define is_not_fstring() FandangoLexerBase::lexer->_is_not_fstring();", "", "R14-b"),
    M("new-g4-hook-only-in-python", _LG4, "{ python_end(); }", "{ python_end(); filepath_end(); }", "R14-b"),
    M("python-close-brace-differs", _PYB, "    def close_brace(self) -> None:\n        self.opened -= 1\n", "    def close_brace(self) -> None:\n        self.opened = 0\n", "R14-c"),
    M("cpp-python-end-decrements", _CPB, "void FandangoLexerBase::_python_end() {\n    inPython = 0;\n}", "void FandangoLexerBase::_python_end() {\n    inPython--;\n}", "R14-c"),
    M("python-reset-forgets-in-python", _PYB, "        self.opened = 0\n        self.in_python = 0\n        self.in_fstring = False\n        self.in_filepath = 0\n        super().reset()", "        self.opened = 0\n        self.in_fstring = False\n        self.in_filepath = 0\n        super().reset()", "R14-c"),
]
TWINS = [
    M("twin-byte-order-mark-removed-by-a-guarded-slice", _PT, "    fan_contents = fan_contents.lstrip(\"\\ufeff\")\n", "    while fan_contents.startswith(\"\\ufeff\"):\n        fan_contents = fan_contents[1:]\n", None),
    M("twin-python-skip-condition-in-named-locals", _PYB, "        if self.opened > 0 or (next_next != -1 and next_ in (10, 13, 35)):\n", "        inside_brackets = self.opened > 0\n        next_line_is_empty = next_next != -1 and next_ in (10, 13, 35)\n        if inside_brackets or next_line_is_empty:\n", None),
    M("twin-python-previous-branches-swapped", _PYB, "            previous = 0 if len(self.indents) == 0 else self.indents[-1]\n", "            previous = self.indents[-1] if self.indents else 0\n", None),
    M("twin-python-truthiness-of-lists", _PYB, "                while len(self.indents) > 0 and self.indents[-1] > indent:\n", "                while self.indents and indent < self.indents[-1]:\n", None),
    M("twin-python-previous-by-truthiness", _PYB, "            previous = 0 if len(self.indents) == 0 else self.indents[-1]\n", "            previous = 0 if not self.indents else self.indents[-1]\n", None),
    M("twin-python-docstring", _PYB, "    def open_brace(self) -> None:\n        self.opened += 1\n", "    def open_brace(self) -> None:\n        \"\"\"count an opening brace\"\"\"\n        self.opened += 1\n", None),
    M("twin-cpp-comment", _CPB, "void FandangoLexerBase::_open_brace() {\n    opened++;\n}", "void FandangoLexerBase::_open_brace() {\n    // one more\n    opened++;\n}", None),
]
