"""C20 - a protocol run is a valid, correctly attributed interaction (schedule-independent clauses).

R20-a  lock discipline: every read or write of FandangoIO.receive (outside __init__) lies inside
       `with self.receive_lock`; no other module touches the attribute directly.
R20-b  thread-side effects are append-only: from every threading.Thread(target=...) entry the call
       graph reaches FandangoIO state only through add_receive; the removing methods
       (clear_by_party, clear_received_msg(s), reset_parties) are not reachable from a thread
       entry - so an index computed on a snapshot is still valid when clear_by_party runs.
R20-c  a message's fragments are queued atomically and in order: both fragmenting loops of
       add_receive lie inside one lock region, iterate the message itself and append.
R20-d  acceptance discipline in _generate_io: after parse_next_remote_packet every path to the next
       loop iteration passes the `fitness == 1.0` test on the extended history or raises; the only
       handler around the loop body does not catch the constraint-violation error; the tree handed
       to transmit flows from an evaluator yield or the hold-back set.
"""

from __future__ import annotations

import ast
import re

from typing import Optional

from ..core import AnalysisError, FuncInfo, ancestors, call_name, get_kwarg, names_in, norm, parents_map, self_attr, short, walk_local
from ..engine import Engine
from ..report import Check

IO = "fandango.io"


def run(chk: Check, eng: Engine) -> None:
    chk.rule("R20-a", "every access to FandangoIO.receive happens under receive_lock; nobody else touches the attribute", floor=8)
    chk.rule("R20-b", "receiver threads can only append to the buffer; removals are unreachable from thread entries", floor=3)
    chk.rule("R20-c", "the fragments of one message are appended atomically (one lock region) and in order", floor=2)
    chk.rule("R20-d", "a remote message extends the history only after the exact fitness test; violations raise past the run's handler; sent trees come from evaluator yields", floor=5)
    chk.not_decided += ["prefix-validity of the recorded interaction (values)", "exactly-once delivery under arbitrary interleavings and timing", "behaviour of user-defined parties"]

    fio = eng.cls(IO, "FandangoIO")
    # ---- R20-a ---------------------------------------------------------------
    n_acc = 0
    for name, m in sorted(fio.methods.items()):
        if name == "__init__":
            continue
        pm = parents_map(m.node)
        for n in walk_local(m.node):
            if isinstance(n, ast.Attribute) and n.attr == "receive" and isinstance(n.value, ast.Name) and n.value.id == "self":
                par = pm.get(id(n))
                if isinstance(par, ast.Call) and par.func is n:
                    continue  # a call of a method named receive (none on FandangoIO)
                n_acc += 1
                locked = any(isinstance(a, ast.With) and any(self_attr(i.context_expr) == "receive_lock" for i in a.items) for a in ancestors(pm, n))
                if locked:
                    chk.ok("R20-a", m.fq, n.lineno, f"{name}: access to self.receive inside `with self.receive_lock`")
                else:
                    chk.bad("R20-a", eng.relfile(m), n.lineno, m.fq, f"{name}: `self.receive` is accessed without holding receive_lock",
                            "a listener thread appending fragments races with the main loop: fragments are lost, duplicated or reordered", keyparts=f"unlocked|{name}")
    if n_acc < 8:
        raise AnalysisError(f"only {n_acc} accesses to FandangoIO.receive found")
    outside = []
    for f in eng.ix.all_functions:
        if f.cls is fio:
            continue
        pm = None
        for n in walk_local(f.node):
            if isinstance(n, ast.Attribute) and n.attr == "receive":
                if pm is None:
                    pm = parents_map(f.node)
                par = pm.get(id(n))
                if isinstance(par, ast.Call) and par.func is n:
                    continue
                if isinstance(n.value, ast.Name) and n.value.id == "self" and f.cls is not None and not f.cls.is_subclass_of(fio):
                    ann = f.cls.instance_attr_annotations()
                    if "receive" not in ann:
                        continue
                ty = eng.env(f).type_of(n.value)
                if fio.fq in ty or (not ty and "io" in norm(n.value).lower()):
                    outside.append((f, n))
    for f, n in outside:
        chk.bad("R20-a", eng.relfile(f), n.lineno, f.fq, f"`{short(n)}` touches the receive buffer outside FandangoIO", "the buffer is accessed without its lock", keyparts="outside-access")
    if not outside:
        chk.ok("R20-a", "fandango.*", 0, "no access to the receive buffer outside FandangoIO")

    # ---- R20-b ---------------------------------------------------------------
    cg = eng.cg
    entries = []
    for f in eng.ix.all_functions:
        if not f.module.startswith(IO):
            continue
        for c in walk_local(f.node):
            if isinstance(c, ast.Call) and norm(c.func).endswith("Thread"):
                tgt = get_kwarg(c, "target")
                if isinstance(tgt, ast.Attribute) and isinstance(tgt.value, ast.Name) and tgt.value.id == "self" and f.cls is not None:
                    for k in [f.cls] + f.cls.all_subclasses():
                        m = k.lookup(tgt.attr)
                        if m is not None:
                            entries.append((f, m))
    if len(entries) < 2:
        raise AnalysisError(f"only {len(entries)} thread entries found in fandango.io")
    removers = {n: fio.methods[n].fq for n in ("clear_by_party", "clear_received_msg", "clear_received_msgs", "reset_parties") if n in fio.methods}
    writers_ok = {fio.methods["add_receive"].fq}
    seen_entries = set()
    for starter, m in entries:
        if m.fq in seen_entries:
            continue
        seen_entries.add(m.fq)
        reach = cg.reachable([m.fq])
        bad = [n for n, fq in removers.items() if fq in reach]
        if bad:
            p = cg.path(m.fq, removers[bad[0]]) or []
            chk.bad("R20-b", eng.relfile(m), m.line, m.fq, f"thread entry {m.qualname} can reach {bad}",
                    "a listener thread removes fragments while the main loop holds indices into a snapshot of the buffer: clear_by_party then drops the wrong fragments",
                    path=[" -> ".join(x.split(":")[1] for x in p)], keyparts=f"thread-removes|{m.qualname}")
        else:
            touches = sorted(x.split(":")[1] for x in reach if x.startswith(f"{IO}:FandangoIO."))
            chk.ok("R20-b", m.fq, m.line, f"thread entry {m.qualname} reaches FandangoIO only through {touches or ['(nothing)']}")
    # main loop is the only caller of the removers
    algo_io = eng.func("fandango.evolution.algorithm", "Fandango._generate_io")
    main_reach = cg.reachable([algo_io.fq])
    for n, fq in removers.items():
        if fq in main_reach:
            chk.ok("R20-b", fq, 0, f"{n} is reachable from the main generation loop (_generate_io)", nontrivial=False)

    # ---- R20-c ---------------------------------------------------------------
    ar = eng.method(fio, "add_receive", inherited=False)
    pm = parents_map(ar.node)
    loops = [l for l in walk_local(ar.node) if isinstance(l, ast.For)]
    withs = [w for w in walk_local(ar.node) if isinstance(w, ast.With) and any(self_attr(i.context_expr) == "receive_lock" for i in w.items)]
    msg_param = [p for p in ar.params() if p not in ("self", "sender", "receiver")]
    if len(withs) != 1:
        chk.bad("R20-c", eng.relfile(ar), ar.line, ar.fq, f"add_receive uses {len(withs)} lock regions", "fragments of one message can interleave with another message's fragments", keyparts="lock-regions")
    for l in loops:
        inside = any(a is withs[0] for a in ancestors(pm, l)) if withs else False
        it_ok = isinstance(l.iter, ast.Name) and l.iter.id in msg_param
        apps = [c for c in ast.walk(l) if isinstance(c, ast.Call) and isinstance(c.func, ast.Attribute) and self_attr(c.func.value) == "receive"]
        app_ok = bool(apps) and all(c.func.attr == "append" for c in apps)  # type: ignore[union-attr]
        if inside and it_ok and app_ok:
            chk.ok("R20-c", ar.fq, l.lineno, f"`for {short(l.target)} in {short(l.iter)}` appends every fragment inside the single lock region")
        else:
            chk.bad("R20-c", eng.relfile(ar), l.lineno, ar.fq, f"fragment loop `{short(l, 60)}`: inside lock={inside}, iterates the message={it_ok}, appends={app_ok}",
                    "fragments of a message are queued out of order, partially, or interleaved with another sender's data", keyparts="fragment-loop")
    if not loops:
        raise AnalysisError("add_receive: fragmenting loops not found")

    # ---- R20-d ---------------------------------------------------------------
    cfg = eng.cfg(algo_io)
    recv = [n for n in cfg.nodes if n.kind == "stmt" and n.ast is not None and any(isinstance(c, ast.Call) and call_name(c) == "parse_next_remote_packet" for c in ast.walk(n.ast))]
    if len(recv) != 1:
        raise AnalysisError("_generate_io: parse_next_remote_packet call not found")
    tests = [n for n in cfg.nodes if n.kind == "if" and isinstance(n.ast.test, ast.Compare) and norm(n.ast.test) in ("fitness == 1.0", "fitness >= 1.0")]  # type: ignore[union-attr]
    if not tests:
        chk.bad("R20-d", eng.relfile(algo_io), recv[0].line, algo_io.fq, "no `fitness == 1.0` test after a remote packet was parsed",
                "a remote message that violates a constraint is accepted into the history", keyparts="no-fitness-test")
    else:
        t = tests[0]
        # success flag set only on the true branch
        flags = [n for n in cfg.nodes if n.kind == "stmt" and isinstance(n.ast, ast.Assign) and isinstance(n.ast.value, ast.Constant) and n.ast.value.value is True
                 and any(isinstance(x, ast.Name) and "success" in x.id for x in n.ast.targets)]
        tb = cfg.true_branch_nodes(t.id)
        if flags and all(f.id in tb for f in flags):
            chk.ok("R20-d", algo_io.fq, t.line, f"`{flags[0].text()}` only on the true branch of `{t.text()}`")
        else:
            chk.bad("R20-d", eng.relfile(algo_io), t.line, algo_io.fq, "the acceptance flag can be set without the fitness test succeeding", "a violating remote message is accepted", keyparts="flag-unguarded")
        # the fitness compared is the evaluator's value for the extended history
        names = set()
        for n in walk_local(algo_io.node):
            if isinstance(n, ast.Assign) and "fitness" in {x for tg in n.targets for x in names_in(tg)} and "evaluate_individual" in norm(n.value):
                names.add("ok")
        if names:
            chk.ok("R20-d", algo_io.fq, t.line, "the tested fitness is the evaluator's result for the history tree with the received packet mounted")
        else:
            chk.bad("R20-d", eng.relfile(algo_io), t.line, algo_io.fq, "the tested fitness does not come from evaluator.evaluate_individual(history_tree)", "the constraints are not evaluated on the extended history", keyparts="fitness-provenance")
        # every path from the receive to the loop head passes the accepting edge or raises
        whiles = [n for n in cfg.nodes if n.kind == "while" and isinstance(n.ast.test, ast.Constant)]  # type: ignore[union-attr]
        if not whiles:
            raise AnalysisError("_generate_io: main `while True` loop not found")
        head = whiles[0]
        negs = [n for n in cfg.nodes if n.kind == "if" and norm(n.ast.test).startswith("not ") and "success" in norm(n.ast.test)]  # type: ignore[union-attr]
        ige = {(n.id, "false") for n in negs}  # leaving `if not hookin_success` through false = accepted
        p = cfg.find_path(recv[0].id, [head.id], ignore=("exc-out", "raise-out", "abandon", "exc", "raise"), ignore_edges=ige)
        if negs and p is None:
            chk.ok("R20-d", algo_io.fq, negs[0].line, f"after the remote packet every path to the next iteration leaves `{negs[0].text()}` through its false edge (accepted) - otherwise it raises")
        else:
            chk.bad("R20-d", eng.relfile(algo_io), recv[0].line, algo_io.fq, "a path from parse_next_remote_packet to the next loop iteration avoids the acceptance check",
                    "a remote message is taken into the history without having been checked", path=cfg.describe_path(p) if p else [], keyparts="accept-bypass")
        for ng in negs:
            tbn = cfg.true_branch_nodes(ng.id)
            raises = [cfg.nodes[i] for i in tbn if cfg.nodes[i].kind == "stmt" and isinstance(cfg.nodes[i].ast, ast.Raise)]
            if raises:
                exc = call_name(raises[0].ast.exc) if isinstance(raises[0].ast.exc, ast.Call) else norm(raises[0].ast.exc)  # type: ignore[union-attr]
                # the surrounding handler must not catch it
                handlers = [h for h in walk_local(algo_io.node) if isinstance(h, ast.ExceptHandler)]
                caught = [h for h in handlers if h.type is not None and exc in norm(h.type) or (h.type is None)]
                # class-hierarchy aware: FandangoParseError is not a FandangoFailedError
                from ..core import ClassInfo

                mod = eng.ix.modules[algo_io.module]
                ec = eng.ix.resolve_name(mod, exc)
                swallow = []
                for h in handlers:
                    if h.type is None:
                        swallow.append(h)
                        continue
                    for tn in (h.type.elts if isinstance(h.type, ast.Tuple) else [h.type]):
                        hc = eng.ix.resolve_name(mod, norm(tn))
                        if isinstance(ec, ClassInfo) and isinstance(hc, ClassInfo) and ec.is_subclass_of(hc):
                            # only handlers that enclose the raise
                            tr_anc = [a for a in ancestors(parents_map(algo_io.node), raises[0].ast) if isinstance(a, ast.Try)]
                            if any(h in a.handlers for a in tr_anc):
                                swallow.append(h)
                        elif norm(tn) in ("Exception", "BaseException"):
                            swallow.append(h)
                if swallow:
                    chk.bad("R20-d", eng.relfile(algo_io), raises[0].line, algo_io.fq, f"`raise {exc}` for a constraint-violating remote message is caught by `except {short(swallow[0].type) if swallow[0].type else ''}`",
                            "the run continues after a violating message instead of ending with an error", keyparts="violation-caught")
                else:
                    chk.ok("R20-d", algo_io.fq, raises[0].line, f"a violating remote message raises {exc}, which no enclosing handler of _generate_io catches")
            else:
                chk.bad("R20-d", eng.relfile(algo_io), ng.line, algo_io.fq, f"`{ng.text()}` does not raise", "a violating remote message does not end the run", keyparts="violation-no-raise")
    # transmit provenance
    tx = [c for c in walk_local(algo_io.node) if isinstance(c, ast.Call) and call_name(c) == "transmit"]
    if not tx:
        raise AnalysisError("_generate_io: transmit call not found")
    from ..dataflow import ReachingDefs, backward_slice

    rd = ReachingDefs(cfg, algo_io.params())
    for c in tx:
        at = cfg.stmt_nodes_containing(c)
        if not at:
            raise AnalysisError("_generate_io: CFG node of the transmit call not found")
        _defs, calls = backward_slice(cfg, rd, at[0], set().union(*[names_in(a) for a in c.args]) - {"self"})
        sources = {"refill_population", "evaluate_population", "generate", "choice"}
        if calls & sources and not (calls & {"fuzz", "DerivationTree", "parse"}):
            chk.ok("R20-d", algo_io.fq, c.lineno, f"`{short(c, 60)}`: the sent tree derives from {sorted(calls & sources)} (evaluator yields / hold-back set)")
        else:
            chk.bad("R20-d", eng.relfile(algo_io), c.lineno, algo_io.fq, f"`{short(c, 60)}`: the sent tree derives from {sorted(calls)[:8]}",
                    "Fandango sends a message that did not pass the constraint evaluation", keyparts="transmit-provenance")
    hb = [n for n in walk_local(algo_io.node) if isinstance(n, ast.Attribute) and n.attr == "_hold_back_solutions"]
    if hb:
        ev = eng.cls("fandango.evolution.evaluation", "IoEvaluator")
        ei = eng.method(ev, "evaluate_individual", inherited=False)
        ecfg = eng.cfg(ei)
        adds = [n for n in ecfg.nodes if n.kind == "stmt" and n.ast is not None and "_hold_back_solutions.add" in norm(n.ast)]
        from .c02 import threshold_conjuncts

        acc = set()
        for n in ecfg.nodes:
            if n.kind == "if":
                for _c, op, _f in threshold_conjuncts(n.ast.test):  # type: ignore[union-attr]
                    if op == "GtE":
                        acc.add((n.id, "true"))
                    elif op == "Lt" and not isinstance(n.ast.test, ast.BoolOp):  # type: ignore[union-attr]
                        acc.add((n.id, "false"))
        for a in adds:
            p = ecfg.find_path(ecfg.entry, [a.id], ignore=("exc-out", "raise-out", "abandon"), ignore_edges=acc)
            if p is None:
                chk.ok("R20-d", ei.fq, a.line, "hold-back solutions are collected only behind the acceptance threshold")
            else:
                chk.bad("R20-d", eng.relfile(ei), a.line, ei.fq, "a tree can enter the hold-back set without passing the acceptance test",
                        "an unsatisfying message can be sent as fallback", path=ecfg.describe_path(p), keyparts="holdback-unguarded")

    # ---- R20-e ---------------------------------------------------------------
    # the recorded history a new packet is mounted on is sealed before the generator / the search operators touch it
    chk.rule("R20-e", "the history tree a new packet is mounted on is marked read-only on every path before the packet is generated onto it", floor=1)
    iopm = eng.cls("fandango.evolution.population", "IoPopulationManager")
    gpe = eng.method(iopm, "_generate_population_entry", inherited=False)
    gcfg = eng.cfg(gpe)
    colls = [n for n in gcfg.nodes if n.kind == "stmt" and isinstance(n.ast, ast.Assign) and isinstance(n.ast.value, ast.Call) and call_name(n.ast.value) == "collapse" and isinstance(n.ast.targets[0], ast.Name)]
    if len(colls) != 1:
        raise AnalysisError("_generate_population_entry: `tree = self._grammar.collapse(...)` not found")
    hv = colls[0].ast.targets[0].id  # type: ignore[union-attr]
    seals = [n.id for n in gcfg.nodes if n.kind == "stmt" and n.ast is not None and any(
        isinstance(c, ast.Call) and call_name(c) == "set_all_read_only" and isinstance(c.func, ast.Attribute) and norm(c.func.value) == hv and c.args and isinstance(c.args[0], ast.Constant)
        and c.args[0].value is True for c in ast.walk(n.ast))]
    uses = [n for n in gcfg.nodes if n.kind == "stmt" and n.ast is not None and n.id != colls[0].id and (
        any(isinstance(c, ast.Call) and call_name(c) == "fuzz" for c in ast.walk(n.ast)) or (isinstance(n.ast, ast.Return) and n.ast.value is not None and norm(n.ast.value) == hv))]
    if not uses:
        raise AnalysisError("_generate_population_entry: neither a fuzz call nor `return tree` found")
    for u in uses:
        p = gcfg.find_path(colls[0].id, [u.id], avoid=seals, ignore=("exc-out", "raise-out"))
        if p is None and seals:
            chk.ok("R20-e", gpe.fq, u.line, f"`{u.text()}` is reached only after `{hv}.set_all_read_only(True)`")
        else:
            chk.bad("R20-e", eng.relfile(gpe), u.line, gpe.fq, f"`{u.text()}` can be reached with the history `{hv}` still writable",
                    "the forecaster rebuilds the history with fresh (writable) message roots: a repair aimed at an earlier, already exchanged message rewrites it, and "
                    "Fandango continues the run against a conversation that never took place", path=gcfg.describe_path(p) if p else [], keyparts="history-unsealed")

    chk.rule("R20-j", "everything the protocol evaluator collects while one message is searched is emptied when the next message starts", floor=2)
    per_message_state_rule(chk, eng, "R20-j")
    chk.rule("R20-i", "the protocol grammar is cut down to the visible parties by removing grammar nodes by identity (messages of the same type differ in their parties only)", floor=2)
    from .c19 import node_list_identity_rule
    node_list_identity_rule(chk, eng, "R20-i")
    chk.rule("R20-h", "a parse of the history is adopted only if every message agrees with the recorded one in type, sender and recipient (each conjunct compares the two messages)", floor=1)
    pair_agreement_rule(chk, eng, "R20-h")
    chk.rule("R20-g", "the fragment scanner returns a position of the receive buffer it was given together with the fragment at that position (the position is later compared "
             "with buffer positions by clear_by_party)", floor=1)
    scanner_index_rule(chk, eng, "R20-g")
    # ---- R20-f ---------------------------------------------------------------
    # the receive buffer is trimmed up to the fragment index stored with the accepted parse, not up to the scanning cursor
    chk.rule("R20-f", "the receive buffer is cleared up to the fragment index recorded with the accepted parse (same entry as the returned tree)", floor=1)
    pnr = eng.func("fandango.io.packetparser", "parse_next_remote_packet")
    clears = [c for c in walk_local(pnr.node) if isinstance(c, ast.Call) and call_name(c) == "clear_by_party"]
    if not clears:
        raise AnalysisError("parse_next_remote_packet: clear_by_party call not found")
    # the table of complete parses: the dict whose values are (fragment index, tree) pairs
    tables = {t.target.id for t in walk_local(pnr.node) if isinstance(t, ast.AnnAssign) and isinstance(t.target, ast.Name) and "tuple[int" in norm(t.annotation)}
    if len(tables) != 1:
        raise AnalysisError(f"parse_next_remote_packet: table of complete parses not recognised ({sorted(tables)})")
    table = next(iter(tables))
    bound: set[str] = set()
    for n in walk_local(pnr.node):
        if isinstance(n, (ast.For, ast.comprehension)) and table in names_in(n.iter):
            bound |= {x.id for x in ast.walk(n.target) if isinstance(x, ast.Name)}
        if isinstance(n, ast.Assign) and table in names_in(n.value):
            for t in n.targets:
                bound |= {x.id for x in ast.walk(t) if isinstance(x, ast.Name)}
    bound.discard(table)

    def depends(name: str, seen: set[str]) -> bool:
        if name in bound:
            return True
        if name in seen:
            return False
        seen.add(name)
        for a in walk_local(pnr.node):
            if isinstance(a, ast.Assign) and any(isinstance(t, ast.Name) and t.id == name for t in a.targets):
                if any(depends(x, seen) for x in names_in(a.value)):
                    return True
        return False

    for c in clears:
        idx = c.args[1] if len(c.args) > 1 else get_kwarg(c, "to_idx")
        if idx is None:
            raise AnalysisError("clear_by_party: index argument not found")
        if any(depends(x, set()) for x in names_in(idx)):
            chk.ok("R20-f", pnr.fq, c.lineno, f"`{short(c)}`: the index derives from the entries of `{table}`")
        else:
            chk.bad("R20-f", eng.relfile(pnr), c.lineno, pnr.fq, f"`{short(c)}` clears up to `{short(idx)}`, which does not come from the accepted entry of `{table}`",
                    "a longer candidate keeps consuming fragments after the accepted packet was complete: those fragments are the beginning of the remote's next message "
                    "and are deleted with it", keyparts="clear-index-not-from-accepted-parse")


def pair_agreement_rule(chk: Check, eng: Engine, rule: str) -> None:
    """R20-h.  predict() re-parses the recorded history and keeps a parse only if it agrees with what was exchanged; the parse then gets the
    real messages copied in and can become the final interaction tree.  In every loop over `zip(<recorded msgs>, <parsed msgs>)` whose body adopts
    content (`set_children`), the guarding test must compare *the two* messages: each conjunct depends on both loop variables (a conjunct over
    one of them is a tautology or says nothing about agreement), and sender, recipient and the message type are each compared."""
    pf = eng.cls("fandango.io.navigation.packetforecaster", "PacketForecaster")
    predict = eng.method(pf, "predict", inherited=False)
    # predict itself and the private helpers of the class it calls (the comparison loop may have been extracted)
    scopes = [predict]
    for sc in scopes:
        if len(scopes) >= 6:
            break
        for c in walk_local(sc.node):
            if isinstance(c, ast.Call) and isinstance(c.func, ast.Attribute) and isinstance(c.func.value, ast.Name) and c.func.value.id in ("self", "cls", pf.name):
                h = pf.lookup(c.func.attr)
                if h is not None and h not in scopes and h.cls is pf:
                    scopes.append(h)
    n = 0
    for pr in scopes:
        n += _pair_agreement_in(chk, eng, rule, pf, pr)
    if n == 0:
        raise AnalysisError("PacketForecaster.predict: no loop over zipped (recorded, parsed) messages that adopts content found")


def _pair_agreement_in(chk: Check, eng: Engine, rule: str, pf, pr) -> int:
    n = 0
    for lp in walk_local(pr.node):
        if not (isinstance(lp, ast.For) and isinstance(lp.iter, ast.Call) and call_name(lp.iter) == "zip" and isinstance(lp.target, ast.Tuple) and len(lp.target.elts) == 2
                and all(isinstance(e, ast.Name) for e in lp.target.elts)):
            continue
        adopts = any(isinstance(c, ast.Call) and call_name(c) == "set_children" for c in ast.walk(lp))
        if not adopts:
            continue  # not the guarded-adoption form (the filter form is handled below)
        v1, v2 = (e.id for e in lp.target.elts)  # type: ignore[union-attr]
        # locals defined from the loop variables inside the loop
        dep: dict[str, set[str]] = {v1: {v1}, v2: {v2}}
        text: dict[str, str] = {}
        grew = True
        while grew:
            grew = False
            for a in ast.walk(lp):
                if isinstance(a, ast.Assign) and len(a.targets) == 1 and isinstance(a.targets[0], ast.Name):
                    d = set().union(*[dep.get(x, set()) for x in names_in(a.value)]) if names_in(a.value) else set()
                    nm = a.targets[0].id
                    if d and d != dep.get(nm):
                        dep[nm] = d | dep.get(nm, set())
                        text[nm] = norm(a.value)
                        grew = True

        def deps(e: ast.AST) -> set[str]:
            return set().union(*[dep.get(x, set()) for x in names_in(e)]) if names_in(e) else set()

        def expand(e: ast.AST) -> str:
            t = norm(e)
            for _ in range(4):
                for nm, tx in text.items():
                    t = re.sub(rf"\b{re.escape(nm)}\b", f"({tx})", t)
            return t

        def resolve(e: ast.AST) -> ast.AST:
            """a name that stands for the test (`is_same_message = (...)`) is replaced by the test"""
            if isinstance(e, ast.Name):
                ds = [a.value for a in ast.walk(lp) if isinstance(a, ast.Assign) and len(a.targets) == 1 and isinstance(a.targets[0], ast.Name) and a.targets[0].id == e.id]
                if len(ds) == 1:
                    return ds[0]
            return e

        guards = []
        for iff in ast.walk(lp):
            if not isinstance(iff, ast.If):
                continue
            if any(isinstance(c, ast.Call) and call_name(c) == "set_children" for st in iff.body for c in ast.walk(st)):
                guards.append((iff, resolve(iff.test)))
            elif iff.body and isinstance(iff.body[-1], (ast.Break, ast.Continue)) and not iff.orelse and isinstance(iff.test, ast.UnaryOp) and isinstance(iff.test.op, ast.Not):
                # `if not <agreement>: break` in front of the adoption
                guards.append((iff, resolve(iff.test.operand)))
        if not guards:
            chk.bad(rule, eng.relfile(pr), lp.lineno, pr.fq, f"the loop `for {v1}, {v2} in zip(...)` adopts content without an agreement test",
                    "every parse of the history gets the real contents copied in, whatever its messages are", keyparts="agreement-absent")
            n += 1
        for iff, test_ in guards:
            n += 1
            conj = test_.values if isinstance(test_, ast.BoolOp) and isinstance(test_.op, ast.And) else [test_]
            compared: set[str] = set()
            for c in conj:
                if not (isinstance(c, ast.Compare) and len(c.ops) == 1 and isinstance(c.ops[0], ast.Eq)):
                    continue
                l, r = deps(c.left), deps(c.comparators[0])
                one_sided = not ((v1 in l and v2 in r) or (v2 in l and v1 in r)) or (l == r and len(l) == 1)
                if one_sided:
                    chk.bad(rule, eng.relfile(pr), c.lineno, pr.fq, f"`{short(c, 70)}` does not compare the recorded message with the parsed one (both sides depend on {sorted(l | r)})",
                            "a parse of the history that differs from what was exchanged in this attribute is kept, gets the real contents copied in and can become the reported "
                            "interaction: a message is attributed to a party that never sent / received it", keyparts="agreement-one-sided|" + norm(c))
                    continue
                lt, rt = expand(c.left), expand(c.comparators[0])
                for attr in ("sender", "recipient"):
                    if f".{attr}" in lt and f".{attr}" in rt:
                        compared.add(attr)
                if ("symbol" in lt or "name()" in lt or "to_non_terminal" in lt) and ("symbol" in rt or "name()" in rt or "to_non_terminal" in rt):
                    compared.add("type")
            missing = [a for a in ("type", "sender", "recipient") if a not in compared]
            if missing:
                chk.bad(rule, eng.relfile(pr), iff.lineno, pr.fq, f"the agreement test `{short(iff.test, 80)}` does not compare {missing} of the two messages",
                        "parses that disagree with the recorded exchange in that attribute survive and are reported", keyparts="agreement-missing|" + ",".join(missing))
            else:
                chk.ok(rule, pr.fq, iff.lineno, f"recorded and parsed message are compared in type, sender and recipient before content is adopted (`{v1}` vs `{v2}`)")
    # the same test written as a filter over all pairs: `if not all(<pred>(a, b) for a, b in <pairs>): continue`
    pair_names = {t.id for a in walk_local(pr.node) if isinstance(a, ast.Assign) and any(isinstance(c, ast.Call) and call_name(c) == "zip" for c in ast.walk(a.value))
                  for t in a.targets if isinstance(t, ast.Name)}
    for q in walk_local(pr.node):
        if not (isinstance(q, ast.Call) and isinstance(q.func, ast.Name) and q.func.id in ("all", "any") and q.args and isinstance(q.args[0], (ast.GeneratorExp, ast.ListComp))
                and len(q.args[0].generators) == 1):
            continue
        g = q.args[0].generators[0]
        over_pairs = (isinstance(g.iter, ast.Call) and call_name(g.iter) == "zip") or (isinstance(g.iter, ast.Name) and g.iter.id in pair_names)
        if not (over_pairs and isinstance(g.target, ast.Tuple) and len(g.target.elts) == 2 and all(isinstance(e, ast.Name) for e in g.target.elts)):
            continue
        n += 1
        v1, v2 = (e.id for e in g.target.elts)  # type: ignore[union-attr]
        test: ast.AST = q.args[0].elt
        # a helper called with the two messages: its returned expression, in terms of its own parameters
        if isinstance(test, ast.Call) and len(test.args) == 2 and all(isinstance(a, ast.Name) and a.id in (v1, v2) for a in test.args):
            hname = test.func.attr if isinstance(test.func, ast.Attribute) else test.func.id if isinstance(test.func, ast.Name) else None
            h = pf.lookup(hname) if hname else None
            rets = [r for r in walk_local(h.node) if isinstance(r, ast.Return) and r.value is not None] if h is not None else []
            if h is None or len(rets) != 1:
                raise AnalysisError(f"PacketForecaster.predict: the agreement predicate `{short(test, 40)}` could not be resolved")
            ps = [p_ for p_ in h.params() if p_ != "self"]
            v1, v2 = ps[0], ps[1]
            test = rets[0].value
        if q.func.id == "any":
            chk.bad(rule, eng.relfile(pr), q.lineno, pr.fq, f"`{short(q, 70)}`: a parse of the history is kept as soon as *one* of its messages agrees with the recorded one",
                    "parses that disagree with the recorded exchange in another message (another sender or recipient in an alternative branch) survive, get the real contents copied in and "
                    "are reported: messages are sent to / attributed to the wrong party", keyparts="agreement-any")
            continue
        conj = test.values if isinstance(test, ast.BoolOp) and isinstance(test.op, ast.And) else [test]
        compared = set()
        for c in conj:
            if not (isinstance(c, ast.Compare) and len(c.ops) == 1 and isinstance(c.ops[0], ast.Eq)):
                continue
            l, r = set(names_in(c.left)) & {v1, v2}, set(names_in(c.comparators[0])) & {v1, v2}
            if not ((v1 in l and v2 in r) or (v2 in l and v1 in r)) or (l == r and len(l) == 1):
                chk.bad(rule, eng.relfile(pr), c.lineno, pr.fq, f"`{short(c, 70)}` does not compare the recorded message with the parsed one",
                        "a parse of the history that differs from what was exchanged in this attribute is kept and reported", keyparts="agreement-one-sided|" + norm(c))
                continue
            lt, rt = norm(c.left), norm(c.comparators[0])
            for attr in ("sender", "recipient"):
                if f".{attr}" in lt and f".{attr}" in rt:
                    compared.add(attr)
            if ("symbol" in lt or "name()" in lt) and ("symbol" in rt or "name()" in rt):
                compared.add("type")
        missing = [a for a in ("type", "sender", "recipient") if a not in compared]
        if missing:
            chk.bad(rule, eng.relfile(pr), q.lineno, pr.fq, f"the agreement test `{short(test, 80)}` does not compare {missing} of the two messages",
                    "parses that disagree with the recorded exchange in that attribute survive and are reported", keyparts="agreement-missing|" + ",".join(missing))
        else:
            chk.ok(rule, pr.fq, q.lineno, f"`{short(q, 60)}`: every pair of recorded / parsed message is compared in type, sender and recipient")
    return n



def per_message_state_rule(chk: Check, eng: Engine, rule: str) -> None:
    """R20-j.  The protocol evaluator is re-used for every message of a session; what it collects while one message is searched (hold-back
    candidates, the solution set, the fitness memo) refers to the history *as it was then*.  `start_next_message` must empty or re-bind every
    container attribute that `evaluate_individual` adds to - a held-back individual of an earlier step is a whole interaction tree with an
    outdated prefix, and `_generate_io` falls back to exactly that set."""
    ev = eng.cls("fandango.evolution.evaluation", "IoEvaluator")
    start = ev.methods.get("start_next_message")
    evali = ev.lookup("evaluate_individual")
    if start is None or evali is None:
        raise AnalysisError("IoEvaluator.start_next_message / evaluate_individual not found")
    GROW = {"add", "append", "extend", "update", "insert", "setdefault"}
    written: dict[str, int] = {}
    seen, todo = set(), [evali]
    while todo:
        m = todo.pop()
        if m.fq in seen:
            continue
        seen.add(m.fq)
        for x in walk_local(m.node):
            if isinstance(x, ast.Call) and isinstance(x.func, ast.Attribute) and x.func.attr in GROW and self_attr(x.func.value):
                written.setdefault(self_attr(x.func.value), x.lineno)
            if isinstance(x, ast.Assign):
                for t in x.targets:
                    if isinstance(t, ast.Subscript) and self_attr(t.value):
                        written.setdefault(self_attr(t.value), x.lineno)
            if isinstance(x, ast.Call) and isinstance(x.func, ast.Attribute) and self_attr(x.func) and len(seen) < 12:
                g = ev.lookup(x.func.attr)
                if g is not None and g.name not in ("start_next_message",):
                    todo.append(g)
    reset_stmts: dict[str, list[ast.AST]] = {}
    for x in walk_local(start.node):
        if isinstance(x, ast.Call) and isinstance(x.func, ast.Attribute) and x.func.attr == "clear" and self_attr(x.func.value):
            reset_stmts.setdefault(self_attr(x.func.value), []).append(x)
        if isinstance(x, ast.Assign):
            for t in x.targets:
                if self_attr(t):
                    reset_stmts.setdefault(self_attr(t), []).append(x)
    # emptied on *every* path through start_next_message: a reset under a condition leaves the entries of the previous message in place otherwise
    scfg = eng.cfg(start)
    reset = set()
    conditional: dict[str, list[str]] = {}
    for attr, sts in reset_stmts.items():
        through = [i for st in sts for i in scfg.stmt_nodes_containing(st)]
        w = scfg.all_paths_pass(scfg.entry, [scfg.exit], through) if through else [(scfg.entry, "next")]
        if w is None:
            reset.add(attr)
        else:
            conditional[attr] = scfg.describe_path(w)
    if len(written) < 2:
        raise AnalysisError(f"IoEvaluator.evaluate_individual: only {len(written)} container attribute(s) found that grow during a message")
    for attr, line in sorted(written.items()):
        if attr in reset:
            chk.ok(rule, start.fq, start.line, f"`self.{attr}` (filled by evaluate_individual, line {line}) is emptied when the next message starts")
        elif attr in conditional:
            chk.bad(rule, eng.relfile(start), start.line, start.fq, f"`self.{attr}` is filled while a message is searched (line {line}) and emptied by start_next_message only on some paths",
                    "when the condition does not hold, entries of an earlier step survive: a held-back individual is a whole interaction tree whose prefix is the history of that earlier "
                    "step - when the search falls back to the hold-back set it sends an old candidate and replaces the recorded history by the stale prefix",
                    path=conditional[attr], keyparts=f"per-message-state-conditional|{attr}")
        else:
            chk.bad(rule, eng.relfile(start), start.line, start.fq, f"`self.{attr}` is filled while a message is searched (line {line}) and not emptied by start_next_message",
                    "entries of an earlier step survive: a held-back individual is a whole interaction tree whose prefix is the history of that earlier step - when the search falls back "
                    "to the hold-back set it sends an old candidate and replaces the recorded history by the stale prefix", keyparts=f"per-message-state|{attr}")


def scanner_index_rule(chk: Check, eng: Engine, rule: str) -> None:
    """R20-g.  `clear_by_party(party, to_idx)` compares `to_idx` with positions of the receive buffer itself.  The position comes from the
    fragment scanner (the helper that parse_next_remote_packet calls with `get_received_msgs()`): what it returns as (position, fragment) must be
    a position *of the list it was given* and the fragment *at that position* - an index into a filtered or otherwise derived list is a
    different domain (with two remote parties whose fragments interleave, too few or the wrong fragments are acknowledged)."""
    pnr = eng.func("fandango.io.packetparser", "parse_next_remote_packet")
    mod = eng.module("fandango.io.packetparser")
    scanners: dict[str, int] = {}
    for c in walk_local(pnr.node):
        if isinstance(c, ast.Call) and isinstance(c.func, ast.Name):
            r = None
            for i, a in [(i, a) for i, a in enumerate(c.args)] + [(k.arg, k.value) for k in c.keywords if k.arg]:
                if isinstance(a, ast.Call) and call_name(a) == "get_received_msgs":
                    r = r or eng.ix.resolve_name(mod, c.func.id)
                    if not isinstance(r, FuncInfo):
                        # imported from another module of the package
                        tgs, _how = eng.cg.resolve_call(pnr, c)
                        cands = [g for g in eng.ix.all_functions if g.fq in tgs]
                        r = cands[0] if len(cands) == 1 else r
                    if isinstance(r, FuncInfo) and any(isinstance(st, ast.Return) and isinstance(st.value, ast.Tuple) for st in walk_local(r.node)):
                        if isinstance(i, str):
                            if i not in r.params():
                                continue
                            i = r.params().index(i)
                        scanners[r.fq] = i
    if not scanners:
        raise AnalysisError("parse_next_remote_packet: no fragment scanner (a helper called with get_received_msgs() that returns a pair) found")
    # the list handed to the scanner must itself have the positions of the receive buffer: every return of get_received_msgs is the whole buffer
    # (a copy is fine, a filtered or sliced list is another index domain)
    io_cls = eng.cls("fandango.io", "FandangoIO")
    grm = io_cls.lookup("get_received_msgs")
    if grm is None:
        raise AnalysisError("FandangoIO.get_received_msgs not found")

    def whole_buffer(e: ast.AST, depth: int = 0) -> bool:
        if self_attr(e) == "receive":
            return True
        if isinstance(e, ast.Call) and isinstance(e.func, ast.Name) and e.func.id in ("list", "tuple") and len(e.args) == 1 and not e.keywords:
            return whole_buffer(e.args[0], depth)
        if isinstance(e, ast.Call) and isinstance(e.func, ast.Attribute) and e.func.attr == "copy" and not e.args:
            return whole_buffer(e.func.value, depth)
        if isinstance(e, ast.Call) and call_name(e) in ("copy", "deepcopy") and len(e.args) == 1:
            return whole_buffer(e.args[0], depth)
        if isinstance(e, ast.Subscript) and isinstance(e.slice, ast.Slice) and e.slice.lower is None and e.slice.upper is None and e.slice.step is None:
            return whole_buffer(e.value, depth)
        if isinstance(e, ast.ListComp) and len(e.generators) == 1 and not e.generators[0].ifs and whole_buffer(e.generators[0].iter, depth):
            return True  # one element per position, whatever the element is
        if isinstance(e, ast.Name) and depth < 3:
            ds = [a.value for a in walk_local(grm.node) if isinstance(a, ast.Assign) and any(isinstance(t, ast.Name) and t.id == e.id for t in a.targets)]
            return bool(ds) and all(whole_buffer(d, depth + 1) for d in ds)
        return False

    rets = [r for r in walk_local(grm.node) if isinstance(r, ast.Return)]
    if not rets:
        raise AnalysisError("FandangoIO.get_received_msgs has no return statement")
    # returns that the scanner's call sites cannot reach: with no argument passed, a parameter whose default is None is None
    site_calls = [a for c in walk_local(pnr.node) if isinstance(c, ast.Call) for a in list(c.args) + [k.value for k in c.keywords]
                  if isinstance(a, ast.Call) and call_name(a) == "get_received_msgs"]
    none_params: set[str] = set()
    if site_calls and all(not a.args and not a.keywords for a in site_calls):
        args_ = grm.node.args  # type: ignore[attr-defined]
        pos = args_.args[len(args_.args) - len(args_.defaults):]
        none_params = {a.arg for a, d in zip(pos, args_.defaults) if isinstance(d, ast.Constant) and d.value is None}
        none_params |= {a.arg for a, d in zip(args_.kwonlyargs, args_.kw_defaults) if isinstance(d, ast.Constant) and d.value is None}
        none_params -= {t.id for x in walk_local(grm.node) for t in ast.walk(x) if isinstance(t, ast.Name) and isinstance(t.ctx, ast.Store)}

    def none_test(t: ast.AST) -> Optional[bool]:
        """True: t holds when the parameter is None; False: t fails then; None: unknown"""
        if isinstance(t, ast.Compare) and len(t.ops) == 1 and isinstance(t.left, ast.Name) and t.left.id in none_params \
                and isinstance(t.comparators[0], ast.Constant) and t.comparators[0].value is None:
            return True if isinstance(t.ops[0], ast.Is) else False if isinstance(t.ops[0], ast.IsNot) else None
        if isinstance(t, ast.Name) and t.id in none_params:
            return False
        if isinstance(t, ast.UnaryOp) and isinstance(t.op, ast.Not) and isinstance(t.operand, ast.Name) and t.operand.id in none_params:
            return True
        return None

    gpm = parents_map(grm.node)

    def unreachable_for_sites(r: ast.Return) -> bool:
        child: ast.AST = r
        for a in ancestors(gpm, r):
            if isinstance(a, ast.If):
                nt = none_test(a.test)
                in_body = any(child is b for b in a.body)
                if (nt is False and in_body) or (nt is True and not in_body and any(child is b for b in a.orelse)):
                    return True
            for fld in ("body", "orelse", "finalbody"):
                blk = getattr(a, fld, None)
                if isinstance(blk, list) and any(child is st for st in blk):
                    for st in blk[: [i for i, x in enumerate(blk) if x is child][0]]:
                        if isinstance(st, ast.If) and none_test(st.test) is True and st.body and isinstance(st.body[-1], (ast.Return, ast.Raise)):
                            return True
            child = a
        return False

    for r in rets:
        if unreachable_for_sites(r):
            chk.ok(rule, grm.fq, r.lineno, f"`{short(r, 60)}`: not taken for the scanner's calls (they pass no argument)")
            continue
        if r.value is not None and whole_buffer(r.value):
            chk.ok(rule, grm.fq, r.lineno, f"`{short(r, 60)}`: the scanner is given the receive buffer position by position")
        else:
            chk.bad(rule, eng.relfile(grm), r.lineno, grm.fq, f"`{short(r, 70)}` hands the fragment scanner a list that is not the receive buffer position by position",
                    "positions found in a filtered or sliced list are handed to clear_by_party(), which compares them with positions of the buffer itself: with interleaved "
                    "fragments of two remote parties part of a delivered message stays in the buffer and is delivered again as that party's next message", keyparts="buffer-view-domain")
    for fq, pos in sorted(scanners.items()):
        f = next(g for g in eng.ix.all_functions if g.fq == fq)
        params = f.params()
        if pos >= len(params):
            raise AnalysisError(f"{fq}: buffer parameter not found")
        buf = params[pos]
        pm = parents_map(f.node)

        def is_buf_slice(e: ast.AST) -> Optional[ast.AST]:
            """P -> offset None... returns the lower bound expression if e is P[lo:], P itself -> Constant 0."""
            if isinstance(e, ast.Name) and e.id == buf:
                return ast.Constant(value=0)
            if isinstance(e, ast.Subscript) and isinstance(e.value, ast.Name) and e.value.id == buf and isinstance(e.slice, ast.Slice) and e.slice.upper is None and e.slice.step is None:
                return e.slice.lower or ast.Constant(value=0)
            return None

        for ret in [st for st in walk_local(f.node) if isinstance(st, ast.Return) and isinstance(st.value, ast.Tuple) and len(st.value.elts) == 2]:
            idx, frag = ret.value.elts
            if isinstance(idx, ast.UnaryOp) or (isinstance(idx, ast.Constant) and isinstance(idx.value, int) and idx.value < 0) or (isinstance(frag, ast.Constant) and frag.value is None):
                continue  # the not-found answer
            ok_idx = ok_frag = False
            why = "is not bound by a loop over the positions of the buffer"
            if isinstance(idx, ast.Name):
                for lp in ancestors(pm, ret):
                    if not isinstance(lp, ast.For):
                        continue
                    it = lp.iter
                    # for idx in range(.., len(P))
                    if isinstance(lp.target, ast.Name) and lp.target.id == idx.id and isinstance(it, ast.Call) and call_name(it) == "range" and it.args \
                            and norm(it.args[-1] if len(it.args) < 3 else it.args[1]) == f"len({buf})":
                        ok_idx = True
                        # the fragment: unpacked from P[idx] inside the loop, or P[idx][k]
                        for n in ast.walk(lp):
                            if isinstance(n, ast.Assign) and isinstance(n.value, ast.Subscript) and norm(n.value.value) == buf and norm(n.value.slice) == idx.id:
                                if isinstance(frag, ast.Name) and any(isinstance(x, ast.Name) and x.id == frag.id for t in n.targets for x in ast.walk(t)):
                                    ok_frag = True
                        if isinstance(frag, ast.Subscript) and isinstance(frag.value, ast.Subscript) and norm(frag.value.value) == buf and norm(frag.value.slice) == idx.id:
                            ok_frag = True
                    # for idx, (.., frag) in enumerate(P) / enumerate(P[s:], s)
                    if isinstance(lp.target, ast.Tuple) and len(lp.target.elts) == 2 and isinstance(lp.target.elts[0], ast.Name) and lp.target.elts[0].id == idx.id \
                            and isinstance(it, ast.Call) and call_name(it) == "enumerate" and it.args:
                        lo = is_buf_slice(it.args[0])
                        start = it.args[1] if len(it.args) > 1 else next((k.value for k in it.keywords if k.arg == "start"), ast.Constant(value=0))
                        if lo is not None and norm(lo) == norm(start):
                            ok_idx = True
                            if isinstance(frag, ast.Name) and any(isinstance(x, ast.Name) and x.id == frag.id for x in ast.walk(lp.target.elts[1])):
                                ok_frag = True
                        elif lo is not None:
                            why = f"counts from `{short(start)}` while the scan starts at `{short(lo)}`"
            if ok_idx and ok_frag:
                chk.ok(rule, f.fq, ret.lineno, f"`{short(ret, 60)}`: position of `{buf}` and the fragment at that position")
            elif not ok_idx:
                chk.bad(rule, eng.relfile(f), ret.lineno, f.fq, f"`{short(ret, 60)}`: the returned position `{short(idx)}` {why} `{buf}`",
                        "the caller hands the position to clear_by_party(), which compares it with positions of the receive buffer: with interleaved fragments of two remote "
                        "parties the wrong fragments are acknowledged (a consumed fragment is delivered again, a new one is skipped)", keyparts="scanner-index-domain")
            else:
                chk.bad(rule, eng.relfile(f), ret.lineno, f.fq, f"`{short(ret, 60)}`: the returned fragment `{short(frag)}` is not the element of `{buf}` at the returned position",
                        "position and content disagree: the parser consumes one fragment and the buffer is trimmed at another", keyparts="scanner-fragment-mismatch")


# ------------------------------------------------------------------ self-test variants
from ..mutants import M  # noqa: E402

_IO = "src/fandango/io/__init__.py"
_ALG = "src/fandango/evolution/algorithm.py"
_EV = "src/fandango/evolution/evaluation.py"
MUTANTS = [
    M("hold-back-set-survives-the-message", "src/fandango/evolution/evaluation.py", "        self._hold_back_solutions.clear()\n        self._solution_set.clear()\n", "        self._solution_set.clear()\n", "R20-j"),
    M("hold-back-set-emptied-only-for-a-new-run", "src/fandango/evolution/evaluation.py", "        self._hold_back_solutions.clear()\n        self._solution_set.clear()\n", "        if len(past_trees) != len(self._past_trees):\n            self._hold_back_solutions.clear()\n        self._solution_set.clear()\n", "R20-j"),
    M("history-filter-any-instead-of-all", "src/fandango/io/navigation/packetforecaster.py", "            for suggested_tree, is_complete in self._parser.consume(history_nts):\n", "            for suggested_tree, is_complete in self._parser.consume(history_nts):\n                if not any(r.sender == o.sender and r.recipient == o.recipient and r.msg.symbol.name()[9:] == o.msg.symbol.name()[1:] for o, r in zip(tree.protocol_msgs(), suggested_tree.protocol_msgs())):\n                    continue\n", "R20-h"),
    M("recipient-compared-with-itself", "src/fandango/io/navigation/packetforecaster.py", "                        and r_msg.recipient == orig_r_msg.recipient\n", "                        and r_msg.recipient == r_msg.recipient\n", "R20-h"),
    M("recipient-not-compared", "src/fandango/io/navigation/packetforecaster.py", "                        and r_msg.recipient == orig_r_msg.recipient\n", "", "R20-h"),
    M("sender-not-compared", "src/fandango/io/navigation/packetforecaster.py", "                        and r_msg.sender == orig_r_msg.sender\n", "", "R20-h"),
    M("scanner-indexes-the-filtered-list", "src/fandango/io/packetparser.py", "    for idx in range(start_idx, len(messages)):\n        sender, recipient, msg_fragment = messages[idx]\n        if sender == role_sender:\n            return idx, msg_fragment\n",
      "    fragments = [m for s, _, m in messages if s == role_sender]\n    if start_idx < len(fragments):\n        return start_idx, fragments[start_idx]\n", "R20-g"),
    M("scanner-is-given-one-party's-fragments", _IO, "        with self.receive_lock:\n            return list(self.receive)", "        with self.receive_lock:\n            return [entry for entry in self.receive if entry[0] != \"\"]", "R20-g"),
    M("scanner-enumerates-the-tail-from-zero", "src/fandango/io/packetparser.py", "    for idx in range(start_idx, len(messages)):\n        sender, recipient, msg_fragment = messages[idx]\n        if sender == role_sender:\n",
      "    for idx, (sender, recipient, msg_fragment) in enumerate(messages[start_idx:]):\n        if sender == role_sender:\n", "R20-g"),
    M("history-not-sealed", "src/fandango/evolution/population.py", "        tree.set_all_read_only(True)\n        dummy = DerivationTree(NonTerminal(\"<hookin>\"))\n", "        dummy = DerivationTree(NonTerminal(\"<hookin>\"))\n", "R20-e"),
    M("buffer-cleared-to-cursor", "src/fandango/io/packetparser.py", "    io_instance.clear_by_party(msg_sender, max_parse_idx)\n", "    io_instance.clear_by_party(msg_sender, current_fragment_idx)\n", "R20-f"),
    M("received-msg-unlocked", _IO, "        with self.receive_lock:\n            return len(self.receive) != 0", "        return len(self.receive) != 0", "R20-a"),
    M("clear-by-party-unlocked", _IO, "        with self.receive_lock:\n            self.receive = [\n                (sender, receiver, msg)", "        if True:\n            self.receive = [\n                (sender, receiver, msg)", "R20-a"),
    M("add-receive-lock-per-fragment", _IO, "        with self.receive_lock:\n            if isinstance(message, bytes):\n                for fragment_int in message:\n                    self.receive.append((sender, receiver, bytes([fragment_int])))",
      "        if True:\n            if isinstance(message, bytes):\n                for fragment_int in message:\n                    with self.receive_lock:\n                        self.receive.append((sender, receiver, bytes([fragment_int])))", "R20-c"),
    M("add-receive-prepends", _IO, "                for fragment_str in message:\n                    self.receive.append((sender, receiver, fragment_str))", "                for fragment_str in message:\n                    self.receive.insert(0, (sender, receiver, fragment_str))", "R20-c"),
    M("accept-on-approximate-fitness", _ALG, "                        if fitness == 1.0:\n                            hookin_success = True\n                            break", "                        hookin_success = True\n                        if fitness == 1.0:\n                            break", "R20-d"),
    M("no-raise-on-violation", _ALG, "                    if not hookin_success:\n                        raise FandangoParseError(\n                            \"Remote response does not match constraints\"\n                        )",
      "                    if not hookin_success:\n                        LOGGER.warning(\"Remote response does not match constraints\")", "R20-d"),
    M("violation-raises-failed-error", _ALG, "                        raise FandangoParseError(\n                            \"Remote response does not match constraints\"\n                        )", "                        raise FandangoFailedError(\n                            \"Remote response does not match constraints\"\n                        )", "R20-d"),
    M("holdback-below-threshold", _EV, "        if fitness < self._expected_fitness:\n            return fitness, failing_trees, suggestion\n", "        if fitness < self._expected_fitness - 0.2:\n            return fitness, failing_trees, suggestion\n", "R20-d",
      more=(("        if fitness >= self._expected_fitness:\n            if msg is None:", "        if True:\n            if msg is None:"),)),
]
TWINS = [
    M("twin-agreement-through-locals", "src/fandango/io/navigation/packetforecaster.py", "                    if (\n                        r_msg.msg.symbol.name()[9:] == orig_r_msg.msg.symbol.name()[1:]\n                        and r_msg.sender == orig_r_msg.sender\n",
      "                    parsed_symbol = r_msg.msg.symbol\n                    past_symbol = orig_r_msg.msg.symbol\n                    if (\n                        parsed_symbol.name()[9:] == past_symbol.name()[1:]\n                        and orig_r_msg.sender == r_msg.sender\n", None),
    M("twin-scanner-enumerates-the-tail-with-offset", "src/fandango/io/packetparser.py", "    for idx in range(start_idx, len(messages)):\n        sender, recipient, msg_fragment = messages[idx]\n        if sender == role_sender:\n",
      "    for idx, (sender, recipient, msg_fragment) in enumerate(messages[start_idx:], start_idx):\n        if sender == role_sender:\n", None),
    M("twin-longest-parse-by-max", "src/fandango/io/packetparser.py", "    max_parse_idx = -1\n    best_parse_tree = None\n    best_non_terminal = None\n    for non_terminal, (parse_idx, parse_tree) in complete_parses.items():\n        if max_parse_idx < parse_idx:\n            max_parse_idx = parse_idx\n            best_parse_tree = parse_tree\n            best_non_terminal = non_terminal\n\n    assert best_non_terminal is not None\n",
      "    best_non_terminal, (max_parse_idx, best_parse_tree) = max(\n        complete_parses.items(), key=lambda entry: entry[1][0]\n    )\n", None),
    M("twin-optional-party-filter-the-scanner-does-not-use", _IO, "    def get_received_msgs(self) -> list[tuple[str, str, str | bytes]]:\n        \"\"\"Returns a list of all received messages from external parties.\"\"\"\n        with self.receive_lock:\n            return list(self.receive)",
      "    def get_received_msgs(self, sender: Optional[str] = None) -> list[tuple[str, str, str | bytes]]:\n        \"\"\"Returns a list of all received messages from external parties.\"\"\"\n        with self.receive_lock:\n            if sender is None:\n                return list(self.receive)\n            return [entry for entry in self.receive if entry[0] == sender]", None),
    M("twin-lock-alias", _IO, "        with self.receive_lock:\n            return list(self.receive)", "        with self.receive_lock:\n            snapshot = list(self.receive)\n            return snapshot", None),
]
