"""C09 - a tree's value is the in-order concatenation of its leaves (codec roles, value immutability).

R09-a  codec-role flow.  Two roles: S2B (text -> bytes: STRING_TO_BYTES_ENCODING, parameters
       named *str_to_bytes*, `encoding` parameters defaulting to that constant) and B2S
       (bytes -> text: BYTES_TO_STRING_ENCODING, *bytes_to_str*).  A value of one role must not
       reach a sink of the other role (`_str_to_bytes`/`.encode` are S2B sinks, `_bytes_to_str`/
       `.decode` B2S sinks, and every parameter that carries a role).  Otherwise pending bits
       after non-ASCII text are flushed with the wrong codec and str/bytes/bits views disagree,
       depending on which view was requested first.
R09-b  values are not mutated behind shared references: _value/_trailing_bits are assigned only
       in __init__ and _reduce_trailing_bits; no in-place list operation on any _trailing_bits
       (the lists are shared with terminal symbols and with the mutable default []); every
       TreeValue-returning method returns a new object on all paths; append() never writes its
       argument.
R09-c  DerivationTree.value() is a left fold over the children in order, starting from the
       empty value, through append() only, and caches nothing.
"""

from __future__ import annotations

import ast
from typing import Optional

from ..core import AnalysisError, FuncInfo, call_name, get_kwarg, norm, self_attr, short, walk_local
from ..engine import Engine
from ..report import Check

TV_MOD = "fandango.language.tree_value"
TREE_MOD = "fandango.language.tree"
ROLE_CONST = {"STRING_TO_BYTES_ENCODING": "S2B", "BYTES_TO_STRING_ENCODING": "B2S"}


def param_role(fn: FuncInfo, name: str) -> Optional[str]:
    if "str_to_bytes" in name:
        return "S2B"
    if "bytes_to_str" in name:
        return "B2S"
    a = fn.node.args  # type: ignore[attr-defined]
    allp = a.posonlyargs + a.args
    for p, d in list(zip(allp[len(allp) - len(a.defaults):], a.defaults)) + [(p, d) for p, d in zip(a.kwonlyargs, a.kw_defaults) if d is not None]:
        if p.arg == name and isinstance(d, ast.Name) and d.id in ROLE_CONST:
            return ROLE_CONST[d.id]
    # helper functions: role by function name
    if name == "encoding":
        if "str_to_bytes" in fn.name:
            return "S2B"
        if "bytes_to_str" in fn.name:
            return "B2S"
    return None


def expr_role(fn: FuncInfo, e: ast.AST) -> Optional[str]:
    if isinstance(e, ast.Name):
        if e.id in ROLE_CONST:
            return ROLE_CONST[e.id]
        if e.id in fn.params():
            return param_role(fn, e.id)
    if isinstance(e, ast.Attribute) and e.attr in ROLE_CONST:
        return ROLE_CONST[e.attr]
    return None


class _LenUnknown(Exception):
    pass


def _bit_length_range(lo: int, hi: int) -> tuple[int, int]:
    return max(1, lo.bit_length()), max(1, hi.bit_length())


def rendered_length(eng: Engine, fn: FuncInfo, e: ast.AST, env: dict[str, tuple], n: int, depth: int = 0) -> tuple[int, int]:
    """Length range (lo, hi) of the string `e` evaluates to, when the byte sequences in `env` have length n and their elements lie in 0..255.
    env maps names to ("bytes",) | ("int", lo, hi) | ("byte",) ; attribute chains are looked up by their source text."""
    def kind(x: ast.AST):
        return env.get(norm(x))

    def int_range(x: ast.AST) -> tuple[int, int]:
        k = kind(x)
        if k is not None and k[0] == "byte":
            return 0, 255
        if k is not None and k[0] == "int":
            return k[1], k[2]
        if isinstance(x, ast.Constant) and isinstance(x.value, int):
            return x.value, x.value
        if isinstance(x, ast.Call) and norm(x.func) == "len" and x.args and kind(x.args[0]) == ("bytes",):
            return n, n
        if isinstance(x, ast.Call) and norm(x.func) == "int.from_bytes" and x.args and kind(x.args[0]) == ("bytes",):
            return 0, 256 ** n - 1
        if isinstance(x, ast.BinOp) and isinstance(x.op, (ast.Mult, ast.Add, ast.Sub)):
            (a, b), (c, d) = int_range(x.left), int_range(x.right)
            if isinstance(x.op, ast.Mult):
                vals = [a * c, a * d, b * c, b * d]
            elif isinstance(x.op, ast.Add):
                vals = [a + c, b + d]
            else:
                vals = [a - d, b - c]
            return min(vals), max(vals)
        raise _LenUnknown(f"integer `{short(x, 40)}`")

    def spec_of(fs: Optional[ast.AST]) -> tuple[tuple[int, int], str]:
        """(width range, type char) of a format spec given as JoinedStr / None"""
        if fs is None:
            return (0, 0), "d"
        if not isinstance(fs, ast.JoinedStr):
            raise _LenUnknown("format spec")
        text = ""
        width_expr = None
        for v in fs.values:
            if isinstance(v, ast.Constant):
                text += str(v.value)
            elif isinstance(v, ast.FormattedValue):
                if width_expr is not None:
                    raise _LenUnknown("two computed fields in a format spec")
                width_expr = v.value
                text += "{}"
        import re as _re
        m = _re.fullmatch(r"(?:(.)?[<>=^])?0?(\d+|\{\})?([bdxXo])?", text)
        if not m:
            raise _LenUnknown(f"format spec {text!r}")
        w = m.group(2)
        if w == "{}":
            wr = int_range(width_expr)  # type: ignore[arg-type]
        elif w:
            wr = (int(w), int(w))
        else:
            wr = (0, 0)
        return wr, (m.group(3) or "d")

    if isinstance(e, ast.Constant) and isinstance(e.value, str):
        return len(e.value), len(e.value)
    if isinstance(e, ast.JoinedStr):
        lo = hi = 0
        for v in e.values:
            if isinstance(v, ast.Constant):
                lo += len(str(v.value))
                hi += len(str(v.value))
            else:
                (wlo, whi), ty = spec_of(v.format_spec)
                if ty != "b":
                    raise _LenUnknown(f"format type {ty!r}")
                a, b = int_range(v.value)
                if a < 0:
                    raise _LenUnknown("negative value")
                nlo, nhi = _bit_length_range(a, b)
                lo += max(wlo, nlo)
                hi += max(whi, nhi)
        return lo, hi
    if isinstance(e, ast.Call) and isinstance(e.func, ast.Attribute) and e.func.attr == "join" and isinstance(e.func.value, ast.Constant) and e.func.value.value == "" and len(e.args) == 1:
        g = e.args[0]
        if isinstance(g, (ast.GeneratorExp, ast.ListComp)) and len(g.generators) == 1 and not g.generators[0].ifs and isinstance(g.generators[0].target, ast.Name):
            it = g.generators[0].iter
            if kind(it) != ("bytes",):
                raise _LenUnknown(f"iteration over `{short(it, 40)}`")
            sub = dict(env)
            sub[g.generators[0].target.id] = ("byte",)
            a, b = rendered_length(eng, fn, g.elt, sub, n, depth)
            return n * a, n * b
        raise _LenUnknown("join over something else than a plain comprehension")
    if isinstance(e, ast.Call) and isinstance(e.func, ast.Attribute) and e.func.attr in ("zfill", "rjust") and e.args:
        a, b = rendered_length(eng, fn, e.func.value, env, n, depth)
        wl, wh = int_range(e.args[0])
        return max(a, wl), max(b, wh)
    if isinstance(e, ast.Subscript) and isinstance(e.value, ast.Call) and norm(e.value.func) == "bin" and norm(e.slice) == "2:":
        a, b = int_range(e.value.args[0])
        return _bit_length_range(a, b)
    if isinstance(e, ast.BinOp) and isinstance(e.op, ast.Add):
        a, b = rendered_length(eng, fn, e.left, env, n, depth)
        c, d = rendered_length(eng, fn, e.right, env, n, depth)
        return a + c, b + d
    if isinstance(e, ast.Call) and isinstance(e.func, ast.Name) and depth < 3:
        # a helper of the same module: evaluate what it returns with the parameter bound to the argument's kind
        mod = eng.ix.modules[fn.module]
        callee = mod.functions.get(e.func.id)
        if callee is not None and len(e.args) == 1 and not e.keywords and kind(e.args[0]) is not None:
            rets = [r for r in walk_local(callee.node) if isinstance(r, ast.Return) and r.value is not None]
            ps = callee.params()
            if len(rets) == 1 and len(ps) >= 1:
                return rendered_length(eng, callee, rets[0].value, {ps[0]: kind(e.args[0])}, n, depth + 1)  # type: ignore[dict-item]
    raise _LenUnknown(f"`{short(e, 50)}`")


def bits_per_byte_rule(chk: Check, eng: Engine) -> None:
    """R09-d.  The bit view of a byte payload has exactly eight characters per byte - for every length, the empty payload included:
    that is what makes bits(a + b) == bits(a) + bits(b) and lets the byte and bit views of a tree agree.  The string expression of each
    payload branch of TreeValue.to_bits is evaluated in a length domain (format widths, bit lengths of 0..255 and of int.from_bytes)."""
    tv = eng.cls("fandango.language.tree_value", "TreeValue")
    tb = eng.method(tv, "to_bits", inherited=False)
    n_br = 0
    for n in walk_local(tb.node):
        if not (isinstance(n, ast.Assign) and len(n.targets) == 1 and isinstance(n.targets[0], ast.Name) and n.targets[0].id == "value"):
            continue
        if isinstance(n.value, ast.Constant):
            continue
        # the byte sequences of this branch: self._value (bytes branch) or the codec call on it (str branch)
        env: dict[str, tuple] = {}
        for c in ast.walk(n.value):
            if isinstance(c, ast.Call) and call_name(c) in ("_str_to_bytes",):
                env[norm(c)] = ("bytes",)
        env["self._value"] = ("bytes",)
        n_br += 1
        try:
            bad = None
            for k in range(0, 7):
                lo, hi = rendered_length(eng, tb, n.value, env, k)
                if (lo, hi) != (8 * k, 8 * k):
                    bad = (k, lo, hi)
                    break
        except _LenUnknown as ex:
            raise AnalysisError(f"TreeValue.to_bits: the length of `{short(n.value, 60)}` cannot be derived ({ex})")
        if bad is None:
            chk.ok("R09-d", tb.fq, n.lineno, f"`{short(n.value, 70)}` renders exactly 8 characters per byte (payload lengths 0..6, element values 0..255)")
        else:
            k, lo, hi = bad
            chk.bad("R09-d", eng.relfile(tb), n.lineno, tb.fq, f"`{short(n.value, 70)}` renders {lo if lo == hi else f'{lo}..{hi}'} character(s) for a payload of {k} byte(s), not {8 * k}",
                    "the bit view is not the concatenation of the bit views of the parts (an empty field contributes a stray '0'): bits, bytes and text of a tree disagree",
                    keyparts=f"bits-per-byte|n={k}")
    if n_br < 2:
        raise AnalysisError(f"TreeValue.to_bits: only {n_br} payload branch(es) found")


def pending_bits_rule(chk: Check, eng: Engine) -> None:
    """R09-e.  A TreeValue is a payload plus pending bits (`_trailing_bits`).  TreeValue.append builds the value of the concatenation; on every
    path that returns a combined value the pending bits of the left operand must survive: they are passed on (`trailing_bits=` built from
    `self._trailing_bits`), or they were folded into the payload by the flush (`self._reduce_trailing_bits(...)`) before, or the left operand
    is the empty value.  A return that does none of this drops bits - or skips the alignment error the flush raises."""
    tv = eng.cls("fandango.language.tree_value", "TreeValue")
    ap = eng.method(tv, "append", inherited=False)
    cfg = eng.cfg(ap)
    flush = [n.id for n in cfg.nodes if n.kind == "stmt" and n.ast is not None and any(
        isinstance(c, ast.Call) and self_attr(c.func) == "_reduce_trailing_bits" for c in ast.walk(n.ast))]
    if not flush:
        raise AnalysisError("TreeValue.append: the flush of the pending bits (_reduce_trailing_bits) was not found")
    bit_locals = {t.id for a in walk_local(ap.node) if isinstance(a, ast.Assign) and any(self_attr(x) == "_trailing_bits" for x in ast.walk(a.value)) for t in a.targets if isinstance(t, ast.Name)}
    empty_ifs = [n for n in cfg.nodes if n.kind == "if" and "EMPTY" in norm(n.ast.test) and "self" in norm(n.ast.test)]  # type: ignore[union-attr]
    empty_region = set()
    for e in empty_ifs:
        empty_region |= cfg.true_branch_nodes(e.id)
    rets = [n for n in cfg.nodes if n.kind == "stmt" and isinstance(n.ast, ast.Return) and isinstance(n.ast.value, ast.Call) and call_name(n.ast.value) == "TreeValue"]
    if len(rets) < 4:
        raise AnalysisError(f"TreeValue.append: only {len(rets)} returns of a combined value found")
    for r in rets:
        carries = any(self_attr(x) == "_trailing_bits" or (isinstance(x, ast.Name) and x.id in bit_locals) for x in ast.walk(r.ast.value))  # type: ignore[union-attr]
        unflushed = cfg.find_path(cfg.entry, [r.id], avoid=flush, ignore=("exc-out", "raise-out"))
        if carries:
            chk.ok("R09-e", ap.fq, r.line, f"`{short(r.ast, 60)}` passes the left operand's pending bits on")
        elif r.id in empty_region:
            chk.ok("R09-e", ap.fq, r.line, f"`{short(r.ast, 60)}`: the left operand is the empty value (no pending bits)")
        elif unflushed is None:
            chk.ok("R09-e", ap.fq, r.line, f"`{short(r.ast, 60)}` is reached only after the pending bits were flushed into the payload")
        else:
            chk.bad("R09-e", eng.relfile(ap), r.line, ap.fq, f"`{short(r.ast, 70)}` can be reached before the flush and does not carry `self._trailing_bits`",
                    "text followed by bit leaves followed by text loses the bits (or skips the 'not a multiple of 8' error): the value of a tree depends on how its leaves are "
                    "nested, and bytes / bits / text views disagree", path=cfg.describe_path(unflushed), keyparts="pending-bits-dropped")


def run(chk: Check, eng: Engine) -> None:
    chk.rule("R09-e", "TreeValue.append never drops the pending bits of its left operand: they are passed on, flushed before, or there are none", floor=4)
    pending_bits_rule(chk, eng)
    chk.rule("R09-d", "the bit view has exactly eight characters per payload byte, for every payload length including zero", floor=2)
    bits_per_byte_rule(chk, eng)
    chk.rule("R09-a", "no codec value of one role (text->bytes / bytes->text) reaches a sink of the other role", floor=15)
    chk.rule("R09-b", "TreeValue payloads are written only by __init__/_reduce_trailing_bits, never mutated in place, and value-returning methods return new objects", floor=8)
    chk.rule("R09-c", "DerivationTree.value() is an in-order left fold from the empty value through append(), without caching", floor=4)
    chk.not_decided.append("associativity of the bit carry across arbitrary nesting (arithmetic of _reduce_trailing_bits)")

    tv = eng.cls(TV_MOD, "TreeValue")
    tree = eng.cls(TREE_MOD, "DerivationTree")
    cg = eng.cg
    # ---- R09-a ---------------------------------------------------------------
    scope = [f for f in eng.ix.all_functions if f.module in (TV_MOD, TREE_MOD) or f.module.startswith("fandango.language.symbols")]
    n_sites = 0
    for f in scope:
        for c in walk_local(f.node):
            if not isinstance(c, ast.Call):
                continue
            # .encode / .decode
            nm = call_name(c)
            if isinstance(c.func, ast.Attribute) and nm in ("encode", "decode"):
                arg = get_kwarg(c, "encoding") or (c.args[0] if c.args else None)
                if arg is None:
                    continue
                r = expr_role(f, arg)
                sink = "S2B" if nm == "encode" else "B2S"
                if r is None:
                    continue
                n_sites += 1
                if r != sink:
                    chk.bad("R09-a", eng.relfile(f), c.lineno, f.fq, f"`{short(c)}`: a {r} codec is used to {nm}",
                            "text is converted with the codec meant for the other direction: views of the same value disagree for non-ASCII data",
                            keyparts=f"role|{nm}|{short(arg)}")
                else:
                    chk.ok("R09-a", f.fq, c.lineno, f"`{short(c, 60)}`: {r} codec reaches a {sink} sink")
                continue
            tgs, how = cg.resolve_call(f, c)
            callees = [cg.funcs[t] for t in tgs if t in cg.funcs]
            if not callees:
                continue
            for callee in callees[:4]:
                ps = [p for p in callee.params() if p not in ("self", "cls")]
                bound: list[tuple[str, ast.AST]] = []
                for i, a in enumerate(c.args):
                    if i < len(ps):
                        bound.append((ps[i], a))
                for k in c.keywords:
                    if k.arg:
                        bound.append((k.arg, k.value))
                for pname, a in bound:
                    sink = param_role(callee, pname)
                    if sink is None:
                        continue
                    r = expr_role(f, a)
                    if r is None:
                        continue
                    n_sites += 1
                    if r != sink:
                        chk.bad("R09-a", eng.relfile(f), c.lineno, f.fq,
                                f"`{short(c)}`: the {r} value `{short(a)}` is passed as {callee.qualname}({pname}=...), a {sink} parameter",
                                "pending bits are flushed (text is encoded) with the bytes->text codec: for non-ASCII text str(t) is no longer the "
                                "Latin-1 decoding of bytes(t), and the result depends on which view was requested first",
                                keyparts=f"role|{callee.qualname}.{pname}|{short(a)}")
                    else:
                        chk.ok("R09-a", f.fq, c.lineno, f"`{short(c, 50)}`: {r} value -> {callee.qualname}({pname}) [{sink}]")
                break
    # the two role constants must differ in role only by name: both defined once at module level
    mod = eng.module(TV_MOD)
    for cn in ROLE_CONST:
        if cn not in mod.globals_assigned:
            raise AnalysisError(f"{TV_MOD}.{cn} is no longer defined")
    # sibling agreement: to_bits and to_bytes encode text through the same helper and role
    for name in ("to_bits", "to_bytes"):
        m = eng.method(tv, name)
        enc_calls = [c for c in walk_local(m.node) if isinstance(c, ast.Call) and call_name(c) in ("_str_to_bytes", "encode")]
        if not enc_calls:
            chk.bad("R09-a", eng.relfile(m), m.line, m.fq, f"{name} does not convert text through the shared str->bytes helper",
                    "bytes view and bits view of text leaves diverge", keyparts=f"no-helper|{name}")
        for c in enc_calls:
            arg = get_kwarg(c, "encoding") or (c.args[1] if len(c.args) > 1 else None)
            if arg is not None and expr_role(m, arg) == "S2B":
                chk.ok("R09-a", m.fq, c.lineno, f"{name}: text payload encoded with the S2B codec parameter")
            else:
                chk.bad("R09-a", eng.relfile(m), c.lineno, m.fq, f"{name}: text payload is encoded with `{short(arg) if arg is not None else 'a default'}`",
                        "bytes view and bits view of text leaves diverge", keyparts=f"sibling|{name}")

    # ---- R09-b ---------------------------------------------------------------
    PAY = {"_value", "_trailing_bits"}
    allowed_writers = {"__init__", "_reduce_trailing_bits"}
    MUT = {"append", "extend", "insert", "pop", "remove", "clear", "sort", "reverse"}
    for f in eng.ix.all_functions:
        tenv = None
        for n in walk_local(f.node):
            # assignments
            if isinstance(n, (ast.Assign, ast.AugAssign, ast.AnnAssign)):
                for t in (n.targets if isinstance(n, ast.Assign) else [n.target]):
                    b = t.value if isinstance(t, ast.Subscript) else t
                    if isinstance(b, ast.Attribute) and b.attr in PAY:
                        if f.cls is not None and f.cls is not tv and isinstance(b.value, ast.Name) and b.value.id == "self" and not f.cls.is_subclass_of(tv):
                            # another class's own attribute of the same name (Symbol._value holds a TreeValue, it is not a payload)
                            if b.attr == "_value" and isinstance(t, ast.Attribute):
                                continue
                        is_inplace = isinstance(t, ast.Subscript) or (isinstance(n, ast.AugAssign) and b.attr == "_trailing_bits")
                        if f.cls is tv and f.name in allowed_writers and not is_inplace and isinstance(b.value, ast.Name) and b.value.id == "self":
                            if isinstance(n, ast.AnnAssign) and n.value is None:
                                continue
                            chk.ok("R09-b", f.fq, n.lineno, f"`{short(n, 60)}` (payload write by {f.name}, re-binding)")
                        elif f.module == TV_MOD or (isinstance(b.value, ast.Name) and b.value.id != "self"):
                            if tenv is None:
                                tenv = eng.env(f)
                            ty = tenv.type_of(b.value)
                            if ty and tv.fq not in ty:
                                continue
                            if not ty and f.module != TV_MOD and b.attr == "_value":
                                continue
                            chk.bad("R09-b", eng.relfile(f), n.lineno, f.fq, f"`{short(n)}` writes a TreeValue payload outside __init__/_reduce_trailing_bits"
                                    + (" in place" if is_inplace else ""),
                                    "values are shared by reference between a terminal symbol and the values derived from it: the write changes "
                                    "later results of unrelated trees", keyparts=f"payload-write|{b.attr}|{short(n, 40)}")
            elif isinstance(n, ast.Call) and isinstance(n.func, ast.Attribute) and n.func.attr in MUT and isinstance(n.func.value, ast.Attribute) \
                    and n.func.value.attr == "_trailing_bits":
                chk.bad("R09-b", eng.relfile(f), n.lineno, f.fq, f"`{short(n)}` mutates a _trailing_bits list in place",
                        "the list is shared with the terminal symbol's value and with the mutable default `[]`: every later value sees the change",
                        keyparts=f"inplace|{short(n, 40)}")
            elif isinstance(n, ast.Delete):
                for t in n.targets:
                    if isinstance(t, ast.Subscript) and isinstance(t.value, ast.Attribute) and t.value.attr == "_trailing_bits":
                        chk.bad("R09-b", eng.relfile(f), n.lineno, f.fq, f"`{short(n)}` deletes from a _trailing_bits list in place",
                                "shared list mutated", keyparts="inplace-del")
    # locals aliasing the parameter list must not be mutated in __init__ either (`trailing_bits` default [])
    init = eng.method(tv, "__init__")
    for n in walk_local(init.node):
        if isinstance(n, ast.Call) and isinstance(n.func, ast.Attribute) and n.func.attr in MUT and isinstance(n.func.value, ast.Name) and n.func.value.id == "trailing_bits":
            chk.bad("R09-b", eng.relfile(init), n.lineno, init.fq, f"`{short(n)}` mutates the `trailing_bits` argument (default is a shared [])",
                    "the mutable default accumulates bits across all values", keyparts="default-mutated")
    chk.ok("R09-b", init.fq, init.line, "the `trailing_bits` argument (mutable default []) is only re-bound, never mutated")
    # value-returning methods return new objects
    for name, m in sorted(tv.methods.items()):
        ret = m.node.returns  # type: ignore[attr-defined]
        if ret is None or "TreeValue" not in norm(ret) or "Type" in norm(ret):
            continue
        for n in walk_local(m.node):
            if isinstance(n, ast.Return) and n.value is not None:
                v = n.value
                if isinstance(v, ast.Call) and call_name(v) in ("TreeValue", "cls", "empty"):
                    chk.ok("R09-b", m.fq, n.lineno, f"`{short(n, 70)}` returns a new object")
                else:
                    chk.bad("R09-b", eng.relfile(m), n.lineno, m.fq, f"`{short(n)}` may return an existing TreeValue",
                            "the caller's later flush (_reduce_trailing_bits mutates its receiver) changes a value somebody else holds",
                            keyparts=f"returns-existing|{name}|{short(v, 40)}")
    app = eng.method(tv, "append")
    oparam = [p for p in app.params() if p not in ("self",)][0]
    wrote_other = False
    for n in walk_local(app.node):
        if isinstance(n, (ast.Assign, ast.AugAssign)):
            for t in (n.targets if isinstance(n, ast.Assign) else [n.target]):
                if isinstance(t, ast.Attribute) and isinstance(t.value, ast.Name) and t.value.id == oparam:
                    wrote_other = True
        if isinstance(n, ast.Call) and isinstance(n.func, ast.Attribute) and isinstance(n.func.value, ast.Name) and n.func.value.id == oparam \
                and n.func.attr.startswith("_reduce"):
            wrote_other = True
    if wrote_other:
        chk.bad("R09-b", eng.relfile(app), app.line, app.fq, f"append() writes its argument `{oparam}`",
                "the appended child's value (shared with its terminal symbol) changes", keyparts="append-writes-arg")
    else:
        chk.ok("R09-b", app.fq, app.line, f"append() never writes `{oparam}`")
    # only callers inside TreeValue trigger the receiver-mutating flush
    flush_callers = [(f, c) for f in eng.ix.all_functions for c in walk_local(f.node)
                     if isinstance(c, ast.Call) and call_name(c) == "_reduce_trailing_bits"]
    for f, c in flush_callers:
        if f.cls is tv and isinstance(c.func, ast.Attribute) and isinstance(c.func.value, ast.Name) and c.func.value.id == "self":
            chk.ok("R09-b", f.fq, c.lineno, "flush of pending bits on the receiver, from inside TreeValue")
        else:
            chk.bad("R09-b", eng.relfile(f), c.lineno, f.fq, f"`{short(c)}` flushes pending bits of a value it does not own",
                    "a shared value changes representation behind its holders", keyparts="foreign-flush")

    # ---- R09-c ---------------------------------------------------------------
    val = eng.method(tree, "value", inherited=False)
    loops = [n for n in walk_local(val.node) if isinstance(n, ast.For)]
    if len(loops) != 1:
        raise AnalysisError("DerivationTree.value(): expected exactly one fold loop")
    lp = loops[0]
    it = lp.iter
    if self_attr(it) in ("_children", "children"):
        chk.ok("R09-c", val.fq, lp.lineno, f"fold iterates `{short(it)}` itself (in order)")
    else:
        chk.bad("R09-c", eng.relfile(val), lp.lineno, val.fq, f"fold iterates `{short(it)}` instead of the children list in order",
                "the value is not the left-to-right concatenation of the leaves", keyparts="fold-order|" + short(it, 40))
    acc = None
    for n in lp.body:
        if isinstance(n, ast.Assign) and len(n.targets) == 1 and isinstance(n.targets[0], ast.Name) and isinstance(n.value, ast.Call) \
                and call_name(n.value) == "append" and isinstance(n.value.func, ast.Attribute) and isinstance(n.value.func.value, ast.Name) \
                and n.value.func.value.id == n.targets[0].id:
            acc = n.targets[0].id
            arg = n.value.args[0] if n.value.args else None
            tgt = lp.target.id if isinstance(lp.target, ast.Name) else None
            if isinstance(arg, ast.Call) and call_name(arg) == "value" and isinstance(arg.func, ast.Attribute) and isinstance(arg.func.value, ast.Name) and arg.func.value.id == tgt:
                chk.ok("R09-c", val.fq, n.lineno, f"`{short(n)}`: accumulator extended on the right by the child's value")
            else:
                chk.bad("R09-c", eng.relfile(val), n.lineno, val.fq, f"`{short(n)}` does not append the loop child's value",
                        "the value is not the concatenation of the children's values", keyparts="fold-step")
    if acc is None or len(lp.body) != 1:
        chk.bad("R09-c", eng.relfile(val), lp.lineno, val.fq, "fold body is not the single step `acc = acc.append(child.value())`",
                "children are skipped, reordered or combined differently", keyparts="fold-shape")
    else:
        inits = [n for n in val.node.body if isinstance(n, ast.Assign) and any(isinstance(t, ast.Name) and t.id == acc for t in n.targets)]  # type: ignore[attr-defined]
        if inits and isinstance(inits[0].value, ast.Call) and call_name(inits[0].value) == "empty":
            chk.ok("R09-c", val.fq, inits[0].lineno, f"accumulator starts as `{short(inits[0].value)}` (a new empty value)")
        else:
            chk.bad("R09-c", eng.relfile(val), val.line, val.fq, "accumulator does not start from a new empty value",
                    "the fold starts from a shared or non-empty value", keyparts="fold-init")
    writes = [n for n in walk_local(val.node) if isinstance(n, (ast.Assign, ast.AugAssign)) and any(self_attr(t) for t in (n.targets if isinstance(n, ast.Assign) else [n.target]))]
    if writes:
        chk.bad("R09-c", eng.relfile(val), writes[0].lineno, val.fq, f"value() stores `{short(writes[0])}` on the tree",
                "a cached value goes stale when the tree is edited (no invalidation hook covers it)", keyparts="value-cached")
    else:
        chk.ok("R09-c", val.fq, val.line, "value() writes no attribute of the tree (nothing cached)")
    # terminal case returns the symbol's value
    rets = [n for n in val.node.body if isinstance(n, ast.If)]  # type: ignore[attr-defined]
    if rets and "is_terminal" in norm(rets[0].test):
        chk.ok("R09-c", val.fq, rets[0].lineno, "a terminal leaf contributes its symbol's value")
    else:
        raise AnalysisError("DerivationTree.value(): terminal case not recognised")


# ------------------------------------------------------------------ self-test variants
from ..mutants import M  # noqa: E402

_TV = "src/fandango/language/tree_value.py"
_T = "src/fandango/language/tree.py"
MUTANTS = [
    M("text-plus-text-before-the-flush", _TV, "        # flush bits, will set self._value\n        self._reduce_trailing_bits(str_to_bytes_encoding=str_to_bytes_encoding)\n\n        if isinstance(self._value, str):\n",
      "        if isinstance(self._value, str) and isinstance(other._value, str):\n            return TreeValue(self._value + other._value, trailing_bits=other._trailing_bits)\n\n        # flush bits, will set self._value\n        self._reduce_trailing_bits(str_to_bytes_encoding=str_to_bytes_encoding)\n\n        if isinstance(self._value, str):\n", "R09-e"),
    M("payloadless-operand-forgets-left-bits", _TV, "            trailing_bits = self._trailing_bits + other._trailing_bits\n            return TreeValue(self._value, trailing_bits=trailing_bits)\n", "            return TreeValue(self._value, trailing_bits=other._trailing_bits)\n", "R09-e"),
    M("bits-by-whole-integer-format", _TV, "            value = \"\".join(f\"{byte_:08b}\" for byte_ in self._value)\n", "            value = f\"{int.from_bytes(self._value, byteorder='big'):0{8 * len(self._value)}b}\"\n", "R09-d"),
    M("bits-unpadded", _TV, "            value = \"\".join(f\"{byte_:08b}\" for byte_ in self._value)\n", "            value = \"\".join(f\"{byte_:b}\" for byte_ in self._value)\n", "R09-d"),
    M("to-string-flush-with-b2s", _TV, "        self._reduce_trailing_bits(str_to_bytes_encoding=STRING_TO_BYTES_ENCODING)\n        if isinstance(self._value, str):\n            return self._value\n        if isinstance(self._value, bytes):\n            return _bytes_to_str",
      "        self._reduce_trailing_bits(str_to_bytes_encoding=bytes_to_str_encoding)\n        if isinstance(self._value, str):\n            return self._value\n        if isinstance(self._value, bytes):\n            return _bytes_to_str", "R09-a"),
    M("to-bits-encodes-latin1", _TV, "                for byte_ in _str_to_bytes(self._value, encoding=str_to_bytes_encoding)\n", "                for byte_ in _str_to_bytes(self._value, encoding=BYTES_TO_STRING_ENCODING)\n", "R09-a"),
    M("tree-to-bytes-default-role", _T, "    def to_bytes(self, encoding: str = STRING_TO_BYTES_ENCODING) -> bytes:", "    def to_bytes(self, encoding: str = BYTES_TO_STRING_ENCODING) -> bytes:", "R09-a"),
    M("append-extends-bits-in-place", _TV, "            trailing_bits = self._trailing_bits + other._trailing_bits\n            return TreeValue(self._value, trailing_bits=trailing_bits)",
      "            self._trailing_bits.extend(other._trailing_bits)\n            return TreeValue(self._value, trailing_bits=self._trailing_bits)", "R09-b"),
    M("append-returns-other-when-empty", _TV, "            return TreeValue(\n                other._value, trailing_bits=other._trailing_bits, allow_empty=True\n            )\n", "            return other\n", "R09-b"),
    M("append-flushes-other", _TV, "        # flush bits, will set self._value\n        self._reduce_trailing_bits(str_to_bytes_encoding=str_to_bytes_encoding)\n",
      "        # flush bits, will set self._value\n        self._reduce_trailing_bits(str_to_bytes_encoding=str_to_bytes_encoding)\n        if len(other._trailing_bits) % 8 == 0:\n            other._reduce_trailing_bits(str_to_bytes_encoding=str_to_bytes_encoding)\n", "R09-b"),
    M("value-fold-reversed", _T, "        aggregate = TreeValue.empty()\n        for child in self._children:\n", "        aggregate = TreeValue.empty()\n        for child in reversed(self._children):\n", "R09-c"),
    M("value-cached-on-tree", _T, "            aggregate = aggregate.append(child.value())\n        return aggregate", "            aggregate = aggregate.append(child.value())\n        self._value_cache = aggregate\n        return aggregate", "R09-c"),
]
TWINS = [
    M("twin-bits-by-zfill", _TV, "            value = \"\".join(f\"{byte_:08b}\" for byte_ in self._value)\n", "            value = \"\".join(bin(byte_)[2:].zfill(8) for byte_ in self._value)\n", None),
    M("twin-kwarg-to-positional", _TV, "            return _bytes_to_str(self._value, encoding=bytes_to_str_encoding)\n        raise FandangoValueError(\n            f\"Invalid value type: {type(self._value)}, {self._trailing_bits}. This should not happen, please report this as a bug\"\n        )\n\n    def to_bytes(",
      "            return _bytes_to_str(self._value, bytes_to_str_encoding)\n        raise FandangoValueError(\n            f\"Invalid value type: {type(self._value)}, {self._trailing_bits}. This should not happen, please report this as a bug\"\n        )\n\n    def to_bytes(", None),
    M("twin-loop-var-rename", _T, "        for child in self._children:\n            aggregate = aggregate.append(child.value())", "        for kid in self._children:\n            aggregate = aggregate.append(kid.value())", None),
]
