"""C09 - a tree's value is the in-order concatenation of its leaves (codec roles, value immutability).

R09-a  codec-role flow.  Two roles: S2B (text -> bytes: STRING_TO_BYTES_ENCODING, parameters
       named *str_to_bytes*, `encoding` parameters defaulting to that constant) and B2S
       (bytes -> text: BYTES_TO_STRING_ENCODING, *bytes_to_str*).  A value of one role must not
       reach a sink of the other role (`_str_to_bytes`/`.encode` are S2B sinks, `_bytes_to_str`/
       `.decode` B2S sinks, and every parameter that carries a role).  Otherwise pending bits
       after non-ASCII text are flushed with the wrong codec and str/bytes/bits views disagree,
       depending on which view was requested first.
R09-b  values are not mutated behind shared references: _value/_trailing_bits are assigned only
       in __init__ and _reduce_trailing_bits; no in-place list operation on any _trailing_bits
       (the lists are shared with terminal symbols and with the mutable default []); every
       TreeValue-returning method returns a new object on all paths; append() never writes its
       argument.
R09-c  DerivationTree.value() is a left fold over the children in order, starting from the
       empty value, through append() only, and caches nothing.
"""

from __future__ import annotations

import ast
from typing import Optional

from ..core import AnalysisError, FuncInfo, call_name, get_kwarg, norm, self_attr, short, walk_local
from ..engine import Engine
from ..report import Check

TV_MOD = "fandango.language.tree_value"
TREE_MOD = "fandango.language.tree"
ROLE_CONST = {"STRING_TO_BYTES_ENCODING": "S2B", "BYTES_TO_STRING_ENCODING": "B2S"}


def param_role(fn: FuncInfo, name: str) -> Optional[str]:
    if "str_to_bytes" in name:
        return "S2B"
    if "bytes_to_str" in name:
        return "B2S"
    a = fn.node.args  # type: ignore[attr-defined]
    allp = a.posonlyargs + a.args
    for p, d in list(zip(allp[len(allp) - len(a.defaults):], a.defaults)) + [(p, d) for p, d in zip(a.kwonlyargs, a.kw_defaults) if d is not None]:
        if p.arg == name and isinstance(d, ast.Name) and d.id in ROLE_CONST:
            return ROLE_CONST[d.id]
    # helper functions: role by function name
    if name == "encoding":
        if "str_to_bytes" in fn.name:
            return "S2B"
        if "bytes_to_str" in fn.name:
            return "B2S"
    return None


def expr_role(fn: FuncInfo, e: ast.AST) -> Optional[str]:
    if isinstance(e, ast.Name):
        if e.id in ROLE_CONST:
            return ROLE_CONST[e.id]
        if e.id in fn.params():
            return param_role(fn, e.id)
    if isinstance(e, ast.Attribute) and e.attr in ROLE_CONST:
        return ROLE_CONST[e.attr]
    return None


def run(chk: Check, eng: Engine) -> None:
    chk.rule("R09-a", "no codec value of one role (text->bytes / bytes->text) reaches a sink of the other role", floor=15)
    chk.rule("R09-b", "TreeValue payloads are written only by __init__/_reduce_trailing_bits, never mutated in place, and value-returning methods return new objects", floor=8)
    chk.rule("R09-c", "DerivationTree.value() is an in-order left fold from the empty value through append(), without caching", floor=4)
    chk.not_decided.append("associativity of the bit carry across arbitrary nesting (arithmetic of _reduce_trailing_bits)")

    tv = eng.cls(TV_MOD, "TreeValue")
    tree = eng.cls(TREE_MOD, "DerivationTree")
    cg = eng.cg
    # ---- R09-a ---------------------------------------------------------------
    scope = [f for f in eng.ix.all_functions if f.module in (TV_MOD, TREE_MOD) or f.module.startswith("fandango.language.symbols")]
    n_sites = 0
    for f in scope:
        for c in walk_local(f.node):
            if not isinstance(c, ast.Call):
                continue
            # .encode / .decode
            nm = call_name(c)
            if isinstance(c.func, ast.Attribute) and nm in ("encode", "decode"):
                arg = get_kwarg(c, "encoding") or (c.args[0] if c.args else None)
                if arg is None:
                    continue
                r = expr_role(f, arg)
                sink = "S2B" if nm == "encode" else "B2S"
                if r is None:
                    continue
                n_sites += 1
                if r != sink:
                    chk.bad("R09-a", eng.relfile(f), c.lineno, f.fq, f"`{short(c)}`: a {r} codec is used to {nm}",
                            "text is converted with the codec meant for the other direction: views of the same value disagree for non-ASCII data",
                            keyparts=f"role|{nm}|{short(arg)}")
                else:
                    chk.ok("R09-a", f.fq, c.lineno, f"`{short(c, 60)}`: {r} codec reaches a {sink} sink")
                continue
            tgs, how = cg.resolve_call(f, c)
            callees = [cg.funcs[t] for t in tgs if t in cg.funcs]
            if not callees:
                continue
            for callee in callees[:4]:
                ps = [p for p in callee.params() if p not in ("self", "cls")]
                bound: list[tuple[str, ast.AST]] = []
                for i, a in enumerate(c.args):
                    if i < len(ps):
                        bound.append((ps[i], a))
                for k in c.keywords:
                    if k.arg:
                        bound.append((k.arg, k.value))
                for pname, a in bound:
                    sink = param_role(callee, pname)
                    if sink is None:
                        continue
                    r = expr_role(f, a)
                    if r is None:
                        continue
                    n_sites += 1
                    if r != sink:
                        chk.bad("R09-a", eng.relfile(f), c.lineno, f.fq,
                                f"`{short(c)}`: the {r} value `{short(a)}` is passed as {callee.qualname}({pname}=...), a {sink} parameter",
                                "pending bits are flushed (text is encoded) with the bytes->text codec: for non-ASCII text str(t) is no longer the "
                                "Latin-1 decoding of bytes(t), and the result depends on which view was requested first",
                                keyparts=f"role|{callee.qualname}.{pname}|{short(a)}")
                    else:
                        chk.ok("R09-a", f.fq, c.lineno, f"`{short(c, 50)}`: {r} value -> {callee.qualname}({pname}) [{sink}]")
                break
    # the two role constants must differ in role only by name: both defined once at module level
    mod = eng.module(TV_MOD)
    for cn in ROLE_CONST:
        if cn not in mod.globals_assigned:
            raise AnalysisError(f"{TV_MOD}.{cn} is no longer defined")
    # sibling agreement: to_bits and to_bytes encode text through the same helper and role
    for name in ("to_bits", "to_bytes"):
        m = eng.method(tv, name)
        enc_calls = [c for c in walk_local(m.node) if isinstance(c, ast.Call) and call_name(c) in ("_str_to_bytes", "encode")]
        if not enc_calls:
            chk.bad("R09-a", eng.relfile(m), m.line, m.fq, f"{name} does not convert text through the shared str->bytes helper",
                    "bytes view and bits view of text leaves diverge", keyparts=f"no-helper|{name}")
        for c in enc_calls:
            arg = get_kwarg(c, "encoding") or (c.args[1] if len(c.args) > 1 else None)
            if arg is not None and expr_role(m, arg) == "S2B":
                chk.ok("R09-a", m.fq, c.lineno, f"{name}: text payload encoded with the S2B codec parameter")
            else:
                chk.bad("R09-a", eng.relfile(m), c.lineno, m.fq, f"{name}: text payload is encoded with `{short(arg) if arg is not None else 'a default'}`",
                        "bytes view and bits view of text leaves diverge", keyparts=f"sibling|{name}")

    # ---- R09-b ---------------------------------------------------------------
    PAY = {"_value", "_trailing_bits"}
    allowed_writers = {"__init__", "_reduce_trailing_bits"}
    MUT = {"append", "extend", "insert", "pop", "remove", "clear", "sort", "reverse"}
    for f in eng.ix.all_functions:
        tenv = None
        for n in walk_local(f.node):
            # assignments
            if isinstance(n, (ast.Assign, ast.AugAssign, ast.AnnAssign)):
                for t in (n.targets if isinstance(n, ast.Assign) else [n.target]):
                    b = t.value if isinstance(t, ast.Subscript) else t
                    if isinstance(b, ast.Attribute) and b.attr in PAY:
                        if f.cls is not None and f.cls is not tv and isinstance(b.value, ast.Name) and b.value.id == "self" and not f.cls.is_subclass_of(tv):
                            # another class's own attribute of the same name (Symbol._value holds a TreeValue, it is not a payload)
                            if b.attr == "_value" and isinstance(t, ast.Attribute):
                                continue
                        is_inplace = isinstance(t, ast.Subscript) or (isinstance(n, ast.AugAssign) and b.attr == "_trailing_bits")
                        if f.cls is tv and f.name in allowed_writers and not is_inplace and isinstance(b.value, ast.Name) and b.value.id == "self":
                            if isinstance(n, ast.AnnAssign) and n.value is None:
                                continue
                            chk.ok("R09-b", f.fq, n.lineno, f"`{short(n, 60)}` (payload write by {f.name}, re-binding)")
                        elif f.module == TV_MOD or (isinstance(b.value, ast.Name) and b.value.id != "self"):
                            if tenv is None:
                                tenv = eng.env(f)
                            ty = tenv.type_of(b.value)
                            if ty and tv.fq not in ty:
                                continue
                            if not ty and f.module != TV_MOD and b.attr == "_value":
                                continue
                            chk.bad("R09-b", eng.relfile(f), n.lineno, f.fq, f"`{short(n)}` writes a TreeValue payload outside __init__/_reduce_trailing_bits"
                                    + (" in place" if is_inplace else ""),
                                    "values are shared by reference between a terminal symbol and the values derived from it: the write changes "
                                    "later results of unrelated trees", keyparts=f"payload-write|{b.attr}|{short(n, 40)}")
            elif isinstance(n, ast.Call) and isinstance(n.func, ast.Attribute) and n.func.attr in MUT and isinstance(n.func.value, ast.Attribute) \
                    and n.func.value.attr == "_trailing_bits":
                chk.bad("R09-b", eng.relfile(f), n.lineno, f.fq, f"`{short(n)}` mutates a _trailing_bits list in place",
                        "the list is shared with the terminal symbol's value and with the mutable default `[]`: every later value sees the change",
                        keyparts=f"inplace|{short(n, 40)}")
            elif isinstance(n, ast.Delete):
                for t in n.targets:
                    if isinstance(t, ast.Subscript) and isinstance(t.value, ast.Attribute) and t.value.attr == "_trailing_bits":
                        chk.bad("R09-b", eng.relfile(f), n.lineno, f.fq, f"`{short(n)}` deletes from a _trailing_bits list in place",
                                "shared list mutated", keyparts="inplace-del")
    # locals aliasing the parameter list must not be mutated in __init__ either (`trailing_bits` default [])
    init = eng.method(tv, "__init__")
    for n in walk_local(init.node):
        if isinstance(n, ast.Call) and isinstance(n.func, ast.Attribute) and n.func.attr in MUT and isinstance(n.func.value, ast.Name) and n.func.value.id == "trailing_bits":
            chk.bad("R09-b", eng.relfile(init), n.lineno, init.fq, f"`{short(n)}` mutates the `trailing_bits` argument (default is a shared [])",
                    "the mutable default accumulates bits across all values", keyparts="default-mutated")
    chk.ok("R09-b", init.fq, init.line, "the `trailing_bits` argument (mutable default []) is only re-bound, never mutated")
    # value-returning methods return new objects
    for name, m in sorted(tv.methods.items()):
        ret = m.node.returns  # type: ignore[attr-defined]
        if ret is None or "TreeValue" not in norm(ret) or "Type" in norm(ret):
            continue
        for n in walk_local(m.node):
            if isinstance(n, ast.Return) and n.value is not None:
                v = n.value
                if isinstance(v, ast.Call) and call_name(v) in ("TreeValue", "cls", "empty"):
                    chk.ok("R09-b", m.fq, n.lineno, f"`{short(n, 70)}` returns a new object")
                else:
                    chk.bad("R09-b", eng.relfile(m), n.lineno, m.fq, f"`{short(n)}` may return an existing TreeValue",
                            "the caller's later flush (_reduce_trailing_bits mutates its receiver) changes a value somebody else holds",
                            keyparts=f"returns-existing|{name}|{short(v, 40)}")
    app = eng.method(tv, "append")
    oparam = [p for p in app.params() if p not in ("self",)][0]
    wrote_other = False
    for n in walk_local(app.node):
        if isinstance(n, (ast.Assign, ast.AugAssign)):
            for t in (n.targets if isinstance(n, ast.Assign) else [n.target]):
                if isinstance(t, ast.Attribute) and isinstance(t.value, ast.Name) and t.value.id == oparam:
                    wrote_other = True
        if isinstance(n, ast.Call) and isinstance(n.func, ast.Attribute) and isinstance(n.func.value, ast.Name) and n.func.value.id == oparam \
                and n.func.attr.startswith("_reduce"):
            wrote_other = True
    if wrote_other:
        chk.bad("R09-b", eng.relfile(app), app.line, app.fq, f"append() writes its argument `{oparam}`",
                "the appended child's value (shared with its terminal symbol) changes", keyparts="append-writes-arg")
    else:
        chk.ok("R09-b", app.fq, app.line, f"append() never writes `{oparam}`")
    # only callers inside TreeValue trigger the receiver-mutating flush
    flush_callers = [(f, c) for f in eng.ix.all_functions for c in walk_local(f.node)
                     if isinstance(c, ast.Call) and call_name(c) == "_reduce_trailing_bits"]
    for f, c in flush_callers:
        if f.cls is tv and isinstance(c.func, ast.Attribute) and isinstance(c.func.value, ast.Name) and c.func.value.id == "self":
            chk.ok("R09-b", f.fq, c.lineno, "flush of pending bits on the receiver, from inside TreeValue")
        else:
            chk.bad("R09-b", eng.relfile(f), c.lineno, f.fq, f"`{short(c)}` flushes pending bits of a value it does not own",
                    "a shared value changes representation behind its holders", keyparts="foreign-flush")

    # ---- R09-c ---------------------------------------------------------------
    val = eng.method(tree, "value", inherited=False)
    loops = [n for n in walk_local(val.node) if isinstance(n, ast.For)]
    if len(loops) != 1:
        raise AnalysisError("DerivationTree.value(): expected exactly one fold loop")
    lp = loops[0]
    it = lp.iter
    if self_attr(it) in ("_children", "children"):
        chk.ok("R09-c", val.fq, lp.lineno, f"fold iterates `{short(it)}` itself (in order)")
    else:
        chk.bad("R09-c", eng.relfile(val), lp.lineno, val.fq, f"fold iterates `{short(it)}` instead of the children list in order",
                "the value is not the left-to-right concatenation of the leaves", keyparts="fold-order|" + short(it, 40))
    acc = None
    for n in lp.body:
        if isinstance(n, ast.Assign) and len(n.targets) == 1 and isinstance(n.targets[0], ast.Name) and isinstance(n.value, ast.Call) \
                and call_name(n.value) == "append" and isinstance(n.value.func, ast.Attribute) and isinstance(n.value.func.value, ast.Name) \
                and n.value.func.value.id == n.targets[0].id:
            acc = n.targets[0].id
            arg = n.value.args[0] if n.value.args else None
            tgt = lp.target.id if isinstance(lp.target, ast.Name) else None
            if isinstance(arg, ast.Call) and call_name(arg) == "value" and isinstance(arg.func, ast.Attribute) and isinstance(arg.func.value, ast.Name) and arg.func.value.id == tgt:
                chk.ok("R09-c", val.fq, n.lineno, f"`{short(n)}`: accumulator extended on the right by the child's value")
            else:
                chk.bad("R09-c", eng.relfile(val), n.lineno, val.fq, f"`{short(n)}` does not append the loop child's value",
                        "the value is not the concatenation of the children's values", keyparts="fold-step")
    if acc is None or len(lp.body) != 1:
        chk.bad("R09-c", eng.relfile(val), lp.lineno, val.fq, "fold body is not the single step `acc = acc.append(child.value())`",
                "children are skipped, reordered or combined differently", keyparts="fold-shape")
    else:
        inits = [n for n in val.node.body if isinstance(n, ast.Assign) and any(isinstance(t, ast.Name) and t.id == acc for t in n.targets)]  # type: ignore[attr-defined]
        if inits and isinstance(inits[0].value, ast.Call) and call_name(inits[0].value) == "empty":
            chk.ok("R09-c", val.fq, inits[0].lineno, f"accumulator starts as `{short(inits[0].value)}` (a new empty value)")
        else:
            chk.bad("R09-c", eng.relfile(val), val.line, val.fq, "accumulator does not start from a new empty value",
                    "the fold starts from a shared or non-empty value", keyparts="fold-init")
    writes = [n for n in walk_local(val.node) if isinstance(n, (ast.Assign, ast.AugAssign)) and any(self_attr(t) for t in (n.targets if isinstance(n, ast.Assign) else [n.target]))]
    if writes:
        chk.bad("R09-c", eng.relfile(val), writes[0].lineno, val.fq, f"value() stores `{short(writes[0])}` on the tree",
                "a cached value goes stale when the tree is edited (no invalidation hook covers it)", keyparts="value-cached")
    else:
        chk.ok("R09-c", val.fq, val.line, "value() writes no attribute of the tree (nothing cached)")
    # terminal case returns the symbol's value
    rets = [n for n in val.node.body if isinstance(n, ast.If)]  # type: ignore[attr-defined]
    if rets and "is_terminal" in norm(rets[0].test):
        chk.ok("R09-c", val.fq, rets[0].lineno, "a terminal leaf contributes its symbol's value")
    else:
        raise AnalysisError("DerivationTree.value(): terminal case not recognised")


# ------------------------------------------------------------------ self-test variants
from ..mutants import M  # noqa: E402

_TV = "src/fandango/language/tree_value.py"
_T = "src/fandango/language/tree.py"
MUTANTS = [
    M("to-string-flush-with-b2s", _TV, "        self._reduce_trailing_bits(str_to_bytes_encoding=STRING_TO_BYTES_ENCODING)\n        if isinstance(self._value, str):\n            return self._value\n        if isinstance(self._value, bytes):\n            return _bytes_to_str",
      "        self._reduce_trailing_bits(str_to_bytes_encoding=bytes_to_str_encoding)\n        if isinstance(self._value, str):\n            return self._value\n        if isinstance(self._value, bytes):\n            return _bytes_to_str", "R09-a"),
    M("to-bits-encodes-latin1", _TV, "                for byte_ in _str_to_bytes(self._value, encoding=str_to_bytes_encoding)\n", "                for byte_ in _str_to_bytes(self._value, encoding=BYTES_TO_STRING_ENCODING)\n", "R09-a"),
    M("tree-to-bytes-default-role", _T, "    def to_bytes(self, encoding: str = STRING_TO_BYTES_ENCODING) -> bytes:", "    def to_bytes(self, encoding: str = BYTES_TO_STRING_ENCODING) -> bytes:", "R09-a"),
    M("append-extends-bits-in-place", _TV, "            trailing_bits = self._trailing_bits + other._trailing_bits\n            return TreeValue(self._value, trailing_bits=trailing_bits)",
      "            self._trailing_bits.extend(other._trailing_bits)\n            return TreeValue(self._value, trailing_bits=self._trailing_bits)", "R09-b"),
    M("append-returns-other-when-empty", _TV, "            return TreeValue(\n                other._value, trailing_bits=other._trailing_bits, allow_empty=True\n            )\n", "            return other\n", "R09-b"),
    M("append-flushes-other", _TV, "        # flush bits, will set self._value\n        self._reduce_trailing_bits(str_to_bytes_encoding=str_to_bytes_encoding)\n",
      "        # flush bits, will set self._value\n        self._reduce_trailing_bits(str_to_bytes_encoding=str_to_bytes_encoding)\n        if len(other._trailing_bits) % 8 == 0:\n            other._reduce_trailing_bits(str_to_bytes_encoding=str_to_bytes_encoding)\n", "R09-b"),
    M("value-fold-reversed", _T, "        aggregate = TreeValue.empty()\n        for child in self._children:\n", "        aggregate = TreeValue.empty()\n        for child in reversed(self._children):\n", "R09-c"),
    M("value-cached-on-tree", _T, "            aggregate = aggregate.append(child.value())\n        return aggregate", "            aggregate = aggregate.append(child.value())\n        self._value_cache = aggregate\n        return aggregate", "R09-c"),
]
TWINS = [
    M("twin-kwarg-to-positional", _TV, "            return _bytes_to_str(self._value, encoding=bytes_to_str_encoding)\n        raise FandangoValueError(\n            f\"Invalid value type: {type(self._value)}, {self._trailing_bits}. This should not happen, please report this as a bug\"\n        )\n\n    def to_bytes(",
      "            return _bytes_to_str(self._value, bytes_to_str_encoding)\n        raise FandangoValueError(\n            f\"Invalid value type: {type(self._value)}, {self._trailing_bits}. This should not happen, please report this as a bug\"\n        )\n\n    def to_bytes(", None),
    M("twin-loop-var-rename", _T, "        for child in self._children:\n            aggregate = aggregate.append(child.value())", "        for kid in self._children:\n            aggregate = aggregate.append(kid.value())", None),
]
