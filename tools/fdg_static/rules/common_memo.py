"""Decorator memos (`functools.lru_cache`, `functools.cache`, `cached_property`): key completeness.

A decorator memo is keyed by the call's arguments through their `__hash__` / `__eq__`; for a method that includes `self`.  The memoised
value is right for a later call only if everything the function reads is determined by that key:

  * an attribute of `self` (or of an argument whose class is known) that the class's `__eq__` / `__hash__` do not look at can differ between
    two objects that are one key - the second object is served the first one's result;
  * for a class with identity hashing the key is the object, and an attribute that is assigned after construction makes the entry stale;
    `cached_property` has the same staleness;
  * module-level state that some function re-binds is not part of any key.

The analysis is written over plain `ast.ClassDef` nodes (the class line of the receiver), so that the embedded positive example below is decided
by exactly the code that decides the repository: the package has no decorator memo today, and a rule with zero instances must still be shown to fire.
"""

from __future__ import annotations

import ast
from typing import Iterable, Optional

from ..core import AnalysisError, ClassInfo, FuncInfo, short
from ..engine import Engine

MEMO_DECORATORS = {"lru_cache", "cache", "cached_property"}
CONSTRUCTORS = {"__init__", "__new__", "__post_init__", "__copy__", "__deepcopy__", "__setstate__"}


def memo_decorator(fn: ast.AST) -> Optional[str]:
    for d in getattr(fn, "decorator_list", []):
        core = d.func if isinstance(d, ast.Call) else d
        name = core.attr if isinstance(core, ast.Attribute) else core.id if isinstance(core, ast.Name) else None
        if name in MEMO_DECORATORS:
            return name
    return None


def _methods(line: list[ast.ClassDef]) -> dict[str, ast.FunctionDef]:
    """Method table of a class line (most derived first)."""
    out: dict[str, ast.FunctionDef] = {}
    for c in line:
        for st in c.body:
            if isinstance(st, (ast.FunctionDef, ast.AsyncFunctionDef)) and st.name not in out:
                out[st.name] = st  # type: ignore[assignment]
    return out


def _is_dataclass(c: ast.ClassDef) -> bool:
    for d in c.decorator_list:
        core = d.func if isinstance(d, ast.Call) else d
        name = core.attr if isinstance(core, ast.Attribute) else core.id if isinstance(core, ast.Name) else ""
        if name == "dataclass":
            if isinstance(d, ast.Call) and any(k.arg == "eq" and isinstance(k.value, ast.Constant) and k.value.value is False for k in d.keywords):
                return False
            return True
    return False


def attr_reads(fn: ast.AST, receiver: str, methods: dict[str, ast.FunctionDef], depth: int = 4, _seen: Optional[set] = None) -> dict[str, int]:
    """Data attributes of `receiver` read by fn, following `receiver.method(...)` / properties of the same class line."""
    seen = _seen if _seen is not None else set()
    out: dict[str, int] = {}
    # local names that stand for the receiver (`root = self`)
    names = {receiver}
    grew = True
    while grew:
        grew = False
        for n in ast.walk(fn):
            if isinstance(n, ast.Assign) and isinstance(n.value, ast.Name) and n.value.id in names:
                for t in n.targets:
                    if isinstance(t, ast.Name) and t.id not in names:
                        names.add(t.id)
                        grew = True
    for n in ast.walk(fn):
        if isinstance(n, ast.Call) and isinstance(n.func, ast.Name) and n.func.id == "getattr" and len(n.args) >= 2 \
                and isinstance(n.args[0], ast.Name) and n.args[0].id in names and isinstance(n.args[1], ast.Constant) and isinstance(n.args[1].value, str):
            if n.args[1].value not in methods:
                out.setdefault(n.args[1].value, n.lineno)
        if isinstance(n, ast.Attribute) and isinstance(n.value, ast.Name) and n.value.id in names and isinstance(n.ctx, ast.Load):
            m = methods.get(n.attr)
            if m is None:
                out.setdefault(n.attr, n.lineno)
            elif depth > 0 and m.name not in seen and m.args.args:
                seen.add(m.name)
                for a, ln in attr_reads(m, m.args.args[0].arg, methods, depth - 1, seen).items():
                    out.setdefault(a, n.lineno)
    return out


def identity_fields(line: list[ast.ClassDef]) -> Optional[set[str]]:
    """Attributes `__eq__` / `__hash__` of the class line look at; None = identity hashing (neither is defined)."""
    methods = _methods(line)
    eq, hs = methods.get("__eq__"), methods.get("__hash__")
    if eq is None and hs is None:
        for c in line:
            if _is_dataclass(c):
                return {st.target.id for k in line for st in k.body if isinstance(st, ast.AnnAssign) and isinstance(st.target, ast.Name)}
        return None
    fields: Optional[set[str]] = None
    for m in (eq, hs):
        if m is None or not m.args.args:
            continue
        got = set(attr_reads(m, m.args.args[0].arg, methods))
        fields = got if fields is None else (fields | got)  # a field either of them looks at separates entries (a dict lookup needs both to agree)
    return fields or set()


def late_writes(line: list[ast.ClassDef], extra_writers: Iterable[ast.AST] = ()) -> set[str]:
    """Attributes assigned outside constructors (through `self` in the class line, or through any receiver in `extra_writers`)."""
    out: set[str] = set()
    for name, m in _methods(line).items():
        if name in CONSTRUCTORS or not m.args.args:
            continue
        me = m.args.args[0].arg
        for n in ast.walk(m):
            if isinstance(n, ast.Attribute) and isinstance(n.ctx, (ast.Store, ast.Del)) and isinstance(n.value, ast.Name) and n.value.id == me:
                out.add(n.attr)
    for fn in extra_writers:
        for n in ast.walk(fn):
            if isinstance(n, ast.Attribute) and isinstance(n.ctx, (ast.Store, ast.Del)):
                out.add(n.attr)
    return out


def memo_key_gap(line: list[ast.ClassDef], fn: ast.FunctionDef, foreign_writes: set[str] = frozenset()) -> list[tuple[str, int, str]]:
    """(attribute, line, reason) for every attribute of `self` the memoised method reads that its key does not determine."""
    if not fn.args.args:
        return []
    methods = _methods(line)
    reads = attr_reads(fn, fn.args.args[0].arg, methods)
    ident = identity_fields(line)
    kind = memo_decorator(fn)
    gaps: list[tuple[str, int, str]] = []
    if kind == "cached_property" or ident is None:
        late = late_writes(line) | set(foreign_writes)
        for a, ln in sorted(reads.items()):
            if a in late:
                gaps.append((a, ln, "is assigned after construction, and the entry is never dropped"))
        return gaps
    for a, ln in sorted(reads.items()):
        if a not in ident:
            gaps.append((a, ln, f"is not looked at by __eq__ / __hash__ (which compare {sorted(ident)})"))
    return gaps


# ---------------------------------------------------------------------------------------------------------------- embedded examples
_POSITIVE = '''
class Sym:
    def __init__(self, value):
        self._value = value
        self._is_regex = False
    def __hash__(self):
        return hash(self._value)
    def __eq__(self, other):
        return self._value == other._value
    @property
    def is_regex(self):
        return self._is_regex
    @lru_cache(maxsize=64)
    def show(self):
        return ("r" if self.is_regex else "") + repr(self._value)
class Box:
    def __init__(self, items):
        self.items = items
    def add(self, x):
        self.items = self.items + [x]
    @cached_property
    def size(self):
        return len(self.items)
'''
_NEGATIVE = '''
class Sym:
    def __init__(self, value, is_regex):
        self._value = value
        self._is_regex = is_regex
    def __hash__(self):
        return hash((self._value, self._is_regex))
    def __eq__(self, other):
        return self._value == other._value and self._is_regex == other._is_regex
    @lru_cache(maxsize=64)
    def show(self):
        return ("r" if self._is_regex else "") + repr(self._value)
class Box:
    def __init__(self, items):
        self.items = tuple(items)
    @cached_property
    def size(self):
        return len(self.items)
'''


def self_check() -> tuple[int, int]:
    """The analysis must fire on the positive example (two gaps) and stay silent on its repaired twin."""
    def run(src: str) -> list[str]:
        found = []
        for c in ast.parse(src).body:
            assert isinstance(c, ast.ClassDef)
            for st in c.body:
                if isinstance(st, ast.FunctionDef) and memo_decorator(st):
                    found += [f"{c.name}.{st.name}:{a}" for a, _, _ in memo_key_gap([c], st)]
        return found
    pos, neg = run(_POSITIVE), run(_NEGATIVE)
    if sorted(pos) != ["Box.size:items", "Sym.show:_is_regex"] or neg:
        raise AnalysisError(f"decorator-memo analysis no longer decides its embedded examples: positive={pos} negative={neg}")
    return len(pos), len(neg)


# ---------------------------------------------------------------------------------------------------------------- repository rule
def class_line(c: ClassInfo) -> list[ast.ClassDef]:
    out, seen, todo = [], set(), [c]
    while todo:
        k = todo.pop(0)
        if k.fq in seen:
            continue
        seen.add(k.fq)
        out.append(k.node)
        todo.extend(k.bases)
    return out


def decorated_memo_rule(chk, eng: Engine, rule: str, roots: Iterable[str], what: str) -> None:
    """Every decorator memo on a function reachable from `roots` (fully qualified names) has a key that determines what the function reads."""
    from .common_fitness import rebound_module_state
    from ..core import ModuleInfo

    pos, _ = self_check()
    chk.ok(rule, "embedded example", 0, f"the analysis reports the {pos} key gaps of its positive example and none on the repaired twin", nontrivial=False)
    reach = eng.cg.reachable(list(roots))
    if len(reach) < 5:
        raise AnalysisError(f"{rule}: only {len(reach)} functions reachable from the {what} entry points")
    rebound = rebound_module_state(eng)
    n = 0
    for f in eng.ix.all_functions:
        kind = memo_decorator(f.node)
        if kind is None or f.fq not in reach:
            continue
        n += 1
        mod = eng.ix.modules[f.module]
        problems: list[tuple[int, str]] = []
        if f.cls is not None:
            line = class_line(f.cls)
            # writers anywhere in the package count for identity-keyed entries (receiver types are not resolved: by name, over-approximating)
            foreign: set[str] = set()
            if identity_fields(line) is None or kind == "cached_property":
                for g in eng.ix.all_functions:
                    if g.cls is not None and g.cls.fq == f.cls.fq:
                        continue
                    for x in ast.walk(g.node):
                        if isinstance(x, ast.Attribute) and isinstance(x.ctx, (ast.Store, ast.Del)):
                            foreign.add(x.attr)
            for a, ln, why in memo_key_gap(line, f.node, foreign):  # type: ignore[arg-type]
                problems.append((ln, f"`self.{a}` {why}"))
        for x in ast.walk(f.node):
            if isinstance(x, ast.Attribute) and isinstance(x.ctx, ast.Load):
                r = eng.ix.resolve_dotted(mod, x.value)
                if isinstance(r, ModuleInfo) and (r.name, x.attr) in rebound:
                    problems.append((x.lineno, f"`{r.name}.{x.attr}` is module state that {rebound[(r.name, x.attr)]} re-binds"))
            elif isinstance(x, ast.Name) and isinstance(x.ctx, ast.Load) and (f.module, x.id) in rebound and x.id not in f.params():
                problems.append((x.lineno, f"`{x.id}` is module state that {rebound[(f.module, x.id)]} re-binds"))
        if not problems:
            chk.ok(rule, f.fq, f.line, f"@{kind}: everything the function reads is determined by its key")
        for ln, msg in problems:
            chk.bad(rule, eng.relfile(f), ln, f.fq, f"@{kind} on {f.qualname}: {msg}",
                    f"two calls that are one memo key can need different results: the second is answered with the first one's ({what})",
                    keyparts=f"decorator-memo|{msg.split('`')[1]}")
    chk.extra.setdefault("decorator_memos", {})[rule] = n
