"""R15-f: what the printers of the constraint sub-language emit can be derived from the rule the reader uses for that construct.

Three ingredients, none of which runs the repository:

1. *Which objects can sit in which field* (`flow`): a small abstract interpretation of the reader (`SearchProcessor` / `ConstraintProcessor`
   in convert.py) over sets of search classes - values are objects, tuples and lists - gives, for every constructor call of a search or a
   quantifier, the classes each argument may be.  Through `self.<field> = <parameter>` that is the set of classes a field can hold.
2. *What a printer prints* (`Printer`): `format_as_spec` is evaluated symbolically for one choice of field occupants at a time; the value of
   a string expression is a token sequence over the terminals of FandangoParser.g4 plus nonterminal holes (`expr` for a string attribute that
   holds Python text).  f-strings, `+`, `join`, conditional expressions, `isinstance` tests, module constants that nothing re-binds,
   `startswith` on a computed string, `match` and enum `.value` are understood; anything else makes the class *undecided* (listed, never guessed).
3. *Derivability* (`sentential.CFG`): an Earley recogniser for sentential forms of the reader's grammar.

Obligations: every search prints an `expression` of embedded Python (its text stands for an atom, Python's trailers may follow); every line `FandangoSpec.__repr__`
emits for a constraint is a `constraint`.
"""

from __future__ import annotations

import ast
import itertools
from typing import Optional

from ..core import AnalysisError, ClassInfo, FuncInfo, norm, self_attr, short
from ..engine import Engine
from ..report import Check
from .. import sentential
from ..sentential import Sym

SEARCH = "fandango.language.search"
# the text of a search stands where embedded Python admits an atom, and what follows it may be taken up by Python's own rules (`<a>[0][1]` is the
# selection `<a>[0]` subscripted by Python): the obligation is that the text is an expression, not that it is a selector_length by itself
SEARCH_RULE = "expression"
CONVERT = "fandango.language.parse.convert"


class Undecided(Exception):
    pass


# ---------------------------------------------------------------------------------------------------------------- 1. flow of search classes
class Flow:
    """Which search classes a reader method can return / pass to a constructor.  Values: frozenset of class names (objects), ("tup", [values]),
    ("lst", value), None (unknown)."""

    def __init__(self, eng: Engine, family: set[str], procs: list[ClassInfo], cfg: Optional[sentential.CFG] = None) -> None:
        self.eng = eng
        self.cfg = cfg
        self.family = family
        self.procs = procs
        self.ret: dict[str, object] = {}
        self.sites: dict[str, list[tuple[FuncInfo, ast.Call, list[object], dict[str, object]]]] = {}
        self.methods: dict[str, FuncInfo] = {}
        for p in procs:
            for c in [p] + p.all_subclasses():
                for n, m in c.methods.items():
                    self.methods.setdefault(n, m)
        self._walk: dict[str, list] = {}
        self._memo: dict = {}
        self._binds: dict = {}
        # only methods that can matter: those that build a member of the family, and the methods that call them (transitively)
        relevant = {n for n, m in self.methods.items() if any(isinstance(c, ast.Call) and (c.func.id if isinstance(c.func, ast.Name) else getattr(c.func, "attr", None)) in family
                                                              for c in ast.walk(m.node))}
        grew = True
        while grew:
            grew = False
            for n, m in self.methods.items():
                if n not in relevant and any(isinstance(c, ast.Call) and isinstance(c.func, ast.Attribute) and c.func.attr in relevant for c in ast.walk(m.node)):
                    relevant.add(n)
                    grew = True
        # ... and their callees that return collections of them
        todo = sorted(relevant)
        while todo:
            m = self.methods[todo.pop()]
            for c in ast.walk(m.node):
                if isinstance(c, ast.Call) and isinstance(c.func, ast.Attribute) and c.func.attr in self.methods and c.func.attr not in relevant \
                        and not c.func.attr.startswith(("visitChildren", "aggregate")):
                    relevant.add(c.func.attr)
                    todo.append(c.func.attr)
        self.methods = {n: m for n, m in self.methods.items() if n in relevant}
        for _ in range(12):
            before = repr(sorted(self.ret.items(), key=lambda kv: kv[0]))
            self.sites = {}
            self._memo = {}
            for n, m in self.methods.items():
                self.ret[n] = self._join_all([self._eval(r.value, m) for r in ast.walk(m.node) if isinstance(r, ast.Return) and r.value is not None], self.ret.get(n))
                returned = {id(x) for r in ast.walk(m.node) if isinstance(r, ast.Return) and r.value is not None for x in ast.walk(r.value)}
                for c in ast.walk(m.node):  # constructor calls in any other position (stored into a map, passed on ...)
                    if isinstance(c, ast.Call) and id(c) not in returned and (c.func.id if isinstance(c.func, ast.Name) else getattr(c.func, "attr", None)) in self.family:
                        if not any(c is site[1] for sites in self.sites.values() for site in sites):
                            self._eval(c, m)
            if repr(sorted(self.ret.items(), key=lambda kv: kv[0])) == before:
                break

    @staticmethod
    def _join(a: object, b: object) -> object:
        if a is None:
            return b
        if b is None:
            return a
        if isinstance(a, frozenset) and isinstance(b, frozenset):
            return a | b
        if isinstance(a, tuple) and isinstance(b, tuple) and a[0] == "const" and b[0] == "const":
            return a if a[1] == b[1] else None
        if isinstance(a, tuple) and isinstance(b, tuple) and a[0] == b[0]:
            if a[0] == "lst":
                return ("lst", Flow._join(a[1], b[1]))
            if len(a[1]) == len(b[1]):
                return ("tup", [Flow._join(x, y) for x, y in zip(a[1], b[1])])
        return a if isinstance(a, frozenset) else b

    def _join_all(self, vals: list[object], seed: object = None) -> object:
        out = seed
        for v in vals:
            out = self._join(out, v)
        return out

    def _name(self, name: str, fn: FuncInfo, depth: int) -> object:
        if depth > 4:
            return None
        key = (fn.fq, name)
        if key in self._memo:
            return self._memo[key]
        self._memo[key] = None  # cut cycles (x = f(x))
        out = None
        for st in self._nodes(fn):
            if isinstance(st, ast.Call) and isinstance(st.func, ast.Attribute) and st.func.attr == "append" and isinstance(st.func.value, ast.Name) and st.func.value.id == name \
                    and len(st.args) == 1:
                out = self._join(out, ("lst", self._eval(st.args[0], fn, depth + 1)))
            if isinstance(st, ast.Assign):
                for t in st.targets:
                    if isinstance(t, ast.Name) and t.id == name:
                        out = self._join(out, self._eval(st.value, fn, depth + 1))
                    elif isinstance(t, ast.Tuple):
                        for i, e in enumerate(t.elts):
                            if isinstance(e, ast.Name) and e.id == name:
                                v = self._eval(st.value, fn, depth + 1)
                                if isinstance(v, tuple) and v[0] == "tup" and i < len(v[1]):
                                    out = self._join(out, v[1][i])
        self._memo[key] = out
        return out

    def _nodes(self, fn: FuncInfo) -> list:
        if fn.fq not in self._walk:
            self._walk[fn.fq] = [n for n in ast.walk(fn.node) if isinstance(n, (ast.Assign, ast.Call))]
        return self._walk[fn.fq]

    def _eval(self, e: ast.AST, fn: FuncInfo, depth: int = 0) -> object:
        if isinstance(e, ast.Call):
            f = e.func
            cname = f.id if isinstance(f, ast.Name) else f.attr if isinstance(f, ast.Attribute) else None
            if cname in self.family and not (isinstance(f, ast.Attribute) and isinstance(f.value, ast.Name) and f.value.id == "self"):
                args = [self._eval(a, fn, depth + 1) for a in e.args]
                kws = {k.arg: self._eval(k.value, fn, depth + 1) for k in e.keywords if k.arg}
                self.sites.setdefault(cname, []).append((fn, e, args, kws))
                return frozenset([cname])
            if isinstance(f, ast.Attribute) and f.attr in self.methods and (self_attr(f) or (isinstance(f.value, ast.Attribute) and self_attr(f.value))):
                for a in list(e.args) + [k.value for k in e.keywords]:
                    self._eval(a, fn, depth + 1)
                return self.ret.get(f.attr)
            return None
        if isinstance(e, ast.Name):
            if e.id in self._binds:
                return self._binds[e.id]
            return self._name(e.id, fn, depth)
        if isinstance(e, ast.Attribute) and self_attr(e):
            return ("field", e.attr)  # resolved by the caller against the class's own fields
        if isinstance(e, ast.Tuple):
            return ("tup", [self._eval(x, fn, depth + 1) for x in e.elts])
        if isinstance(e, ast.List):
            return ("lst", self._join_all([self._eval(x, fn, depth + 1) for x in e.elts]))
        if isinstance(e, ast.Subscript):
            v = self._eval(e.value, fn, depth + 1)
            if isinstance(v, tuple) and v[0] == "lst":
                return v[1]
            if isinstance(v, tuple) and v[0] == "tup" and isinstance(e.slice, ast.Constant) and isinstance(e.slice.value, int) and -len(v[1]) <= e.slice.value < len(v[1]):
                return v[1][e.slice.value]
            return None
        if isinstance(e, ast.IfExp):
            present = self._token_present(e.test, fn)
            if present is True:
                return self._eval(e.body, fn, depth + 1)
            if present is False:
                return self._eval(e.orelse, fn, depth + 1)
            a, b = self._eval(e.body, fn, depth + 1), self._eval(e.orelse, fn, depth + 1)
            if (isinstance(a, tuple) and a[0] == "const") != (isinstance(b, tuple) and b[0] == "const"):
                return None
            return self._join(a, b)
        if isinstance(e, ast.Constant):
            return ("const", e.value)
        if isinstance(e, ast.UnaryOp) and isinstance(e.op, ast.Not):
            present = self._token_present(e.operand, fn)
            if present is not None:
                return ("const", not present)
            v = self._eval(e.operand, fn, depth + 1)
            if isinstance(v, tuple) and v[0] == "const":
                return ("const", not v[1])
            return None
        if isinstance(e, (ast.ListComp, ast.GeneratorExp)) and len(e.generators) == 1 and not e.generators[0].ifs:
            g = e.generators[0]
            src = self._eval(g.iter, fn, depth + 1)
            elem = src[1] if isinstance(src, tuple) and src[0] == "lst" else None
            saved = dict(self._binds)
            try:
                if isinstance(g.target, ast.Name):
                    self._binds[g.target.id] = elem
                elif isinstance(g.target, ast.Tuple):
                    for i, t in enumerate(g.target.elts):
                        if isinstance(t, ast.Name):
                            self._binds[t.id] = elem[1][i] if isinstance(elem, tuple) and elem[0] == "tup" and i < len(elem[1]) else None
                return ("lst", self._eval(e.elt, fn, depth + 1))
            finally:
                self._binds = saved
        return None

    def _token_present(self, test: ast.AST, fn: FuncInfo) -> Optional[bool]:
        """`ctx.TOKEN()` in visit<Rule>: decided by the grammar when TOKEN is in every alternative of the rule (True) or in none (False)."""
        if self.cfg is None or not (isinstance(test, ast.Call) and isinstance(test.func, ast.Attribute) and isinstance(test.func.value, ast.Name) and test.func.value.id == "ctx"
                                    and not test.args and fn.name.startswith("visit")):
            return None
        rule = fn.name[5:6].lower() + fn.name[6:]
        r = self.cfg.parser.rules.get(rule)
        if r is None:
            return None
        tok = test.func.attr
        lit = self.cfg.lexer.token_literal(tok)

        def has(alt, top: bool) -> tuple[bool, bool]:
            """(mandatory at top level, occurs anywhere)"""
            mand = anyw = False
            for el in alt:
                if el.kind == "group":
                    for a in el.alts:
                        m2, a2 = has(a, False)
                        anyw |= a2
                elif (el.kind == "token" and el.value == tok) or (el.kind == "lit" and lit is not None and el.value[1:-1] == lit):
                    anyw = True
                    if top and el.quant in ("", "+"):
                        mand = True
            return mand, anyw

        res = [has(a, True) for a in r.alts]
        if all(m for m, _ in res):
            return True
        if not any(a for _, a in res):
            return False
        return None


# ---------------------------------------------------------------------------------------------------------------- 2. printers
Form = tuple[Sym, ...]
NT_FORM: Form = (("T", "<"), ("T", "NAME"), ("T", ">"))
EXPR: Sym = ("N", "@expr")  # Python expression text: stands for any rule of the expression chain (see CFG.classes)


class ListAcc:
    """A list of strings built by a loop: the forms its elements can have."""

    def __init__(self, elems: frozenset = frozenset()) -> None:
        self.elems = elems


OPAQUE = "opaque item of a collection field (an int, a slice of ints, a symbol)"


class Printer:
    def __init__(self, eng: Engine, cfg: sentential.CFG) -> None:
        self.eng = eng
        self.cfg = cfg

    # a filler is (class name or "str"/"int"/"NonTerminal", form)
    field_abs: dict[tuple[str, str], object] = {}

    def forms(self, cls: ClassInfo, fill: dict[str, object], method: str = "format_as_spec") -> list[Form]:
        m = cls.lookup(method)
        if m is None:
            raise Undecided(f"{cls.name} has no {method}")
        self.cls, self.fn, self.fill = cls, m, fill
        self.alias: dict[str, str] = {}
        out: list[Form] = []
        self._block(list(m.node.body), {}, out, None)  # type: ignore[attr-defined]
        if not out:
            raise Undecided(f"{m.fq}: no return value")
        return out

    def _fld(self, node: ast.AST) -> Optional[str]:
        """`self.F`, or a parameter of a helper function that was called with `self.F`."""
        a = self_attr(node)
        if a is not None:
            return a
        if isinstance(node, ast.Name) and node.id in self.alias:
            return self.alias[node.id]
        return None

    # ---- statements ---------------------------------------------------------------------------------------------------
    def _block(self, stmts: list[ast.stmt], env: dict, out: list[Form], tails: Optional[list]) -> bool:
        """Returns True if every path through stmts returned.  In loop mode (`tails` given) the environment at the end of each path is collected."""
        env = dict(env)
        for i, st in enumerate(stmts):
            if isinstance(st, (ast.Assign, ast.AnnAssign)) and isinstance(getattr(st, "value", None), ast.List) and not st.value.elts:  # type: ignore[union-attr]
                tg = st.targets[0] if isinstance(st, ast.Assign) else st.target
                if isinstance(tg, ast.Name):
                    env[tg.id] = ListAcc()
                    continue
            if isinstance(st, ast.Expr) and isinstance(st.value, ast.Call) and isinstance(st.value.func, ast.Attribute) and st.value.func.attr == "append" \
                    and isinstance(st.value.func.value, ast.Name) and isinstance(env.get(st.value.func.value.id), ListAcc) and len(st.value.args) == 1:
                acc = env[st.value.func.value.id]
                env[st.value.func.value.id] = ListAcc(acc.elems | frozenset(self._expr(st.value.args[0], env)))
                continue
            if isinstance(st, ast.AugAssign) and isinstance(st.target, ast.Name) and isinstance(env.get(st.target.id), ListAcc):
                acc = env[st.target.id]
                env[st.target.id] = ListAcc(acc.elems | frozenset(self._expr(st.value, env)))
                continue
            if isinstance(st, ast.For) and tails is None and not self._is_replace_loop(st):
                # a loop that builds text: one pass over the body with the loop variables opaque; what was appended on any path is what an element can be
                e0 = dict(env)
                for x in ast.walk(st.target):
                    if isinstance(x, ast.Name):
                        e0[x.id] = OPAQUE
                self._bind_known(st, e0)
                ends: list = []
                self._block(list(st.body), e0, out, ends)
                if not ends:
                    raise Undecided("loop body never completes")
                merged = dict(env)
                for name in {k for e_ in ends for k in e_}:
                    vals = [e_[name] for e_ in ends if name in e_]
                    if any(isinstance(v, ListAcc) for v in vals):
                        merged[name] = ListAcc(frozenset().union(*[v.elems for v in vals if isinstance(v, ListAcc)]))
                env = merged
                continue
            if isinstance(st, ast.Expr) and isinstance(st.value, ast.Constant):
                continue
            if isinstance(st, ast.Return):
                if st.value is None:
                    raise Undecided("bare return")
                out.extend(self._expr(st.value, env))
                return True
            if isinstance(st, ast.Raise):
                return True
            if isinstance(st, ast.Assign) and len(st.targets) == 1 and isinstance(st.targets[0], ast.Name):
                env[st.targets[0].id] = self._expr(st.value, env)
                continue
            if isinstance(st, ast.AnnAssign) and isinstance(st.target, ast.Name) and st.value is not None:
                env[st.target.id] = self._expr(st.value, env)
                continue
            if isinstance(st, ast.AugAssign) and isinstance(st.target, ast.Name) and isinstance(st.op, ast.Add) and isinstance(env.get(st.target.id), list):
                env[st.target.id] = [a + b for a in env[st.target.id] for b in self._expr(st.value, env)][:64]
                continue
            if isinstance(st, ast.If):
                rest = stmts[i + 1:]
                done = True
                for verdict, e2 in self._test(st.test, env):
                    body = st.body if verdict else st.orelse
                    done &= self._block(list(body) + rest, e2, out, tails)
                return done
            if isinstance(st, ast.Match):
                rest = stmts[i + 1:]
                done = True
                domain = self._domain(st.subject)
                covered: set = set()
                for case in st.cases:
                    pat = case.pattern
                    if isinstance(pat, ast.MatchValue) and isinstance(pat.value, ast.Constant):
                        covered.add(pat.value.value)
                        if domain is not None and pat.value.value not in domain:
                            continue
                    elif isinstance(pat, ast.MatchAs) and pat.pattern is None and domain is not None and not (domain - covered):
                        continue  # every admitted value has its own case
                    done &= self._block(list(case.body) + rest, env, out, tails)
                return done
            if isinstance(st, ast.For) and self._is_replace_loop(st):
                continue  # placeholders of expression text are replaced by search text: the text stays an expression (searches are checked on their own)
            raise Undecided(f"statement `{short(st, 50)}`")
        if tails is not None:
            tails.append(env)
        return False

    def _bind_known(self, st: ast.For, env: dict) -> None:
        """Components of the items of a collection field that the reader always builds with the same constant (`is_direct` of a `{*<x>}` pair)."""
        its = st.iter.args if isinstance(st.iter, ast.Call) and isinstance(st.iter.func, ast.Name) and st.iter.func.id == "zip" else [st.iter]
        tgs = st.target.elts if isinstance(st.target, ast.Tuple) and len(its) > 1 else [st.target]
        if len(its) != len(tgs):
            return
        for it, tg in zip(its, tgs):
            f = self_attr(it)
            val = self.field_abs.get((self.cls.name, f)) if f else None
            if not (isinstance(val, tuple) and val[0] == "lst"):
                continue
            elem = val[1]
            if isinstance(tg, ast.Tuple) and isinstance(elem, tuple) and elem[0] == "tup" and len(elem[1]) == len(tg.elts):
                for name, comp in zip(tg.elts, elem[1]):
                    if isinstance(name, ast.Name) and isinstance(comp, tuple) and comp[0] == "const":
                        env[name.id] = comp

    @staticmethod
    def _is_replace_loop(st: ast.For) -> bool:
        return all(isinstance(b, ast.Assign) and len(b.targets) == 1 and isinstance(b.targets[0], ast.Name) and isinstance(b.value, ast.Call)
                   and isinstance(b.value.func, ast.Attribute) and b.value.func.attr == "replace" and isinstance(b.value.func.value, ast.Name)
                   and b.value.func.value.id == b.targets[0].id for b in st.body)

    def _test(self, t: ast.AST, env: dict[str, list[Form]]) -> list[tuple[bool, dict[str, list[Form]]]]:
        neg = False
        while isinstance(t, ast.UnaryOp) and isinstance(t.op, ast.Not):
            t, neg = t.operand, not neg
        verdict: Optional[bool] = None
        if isinstance(t, ast.Call) and isinstance(t.func, ast.Name) and t.func.id == "isinstance" and len(t.args) == 2 and self._fld(t.args[0]):
            f = self.fill.get(self._fld(t.args[0]))
            if isinstance(f, tuple):
                names = [norm(x).split(".")[-1] for x in (t.args[1].elts if isinstance(t.args[1], ast.Tuple) else [t.args[1]])]
                kind = f[0]
                c = self._class_named(kind)
                verdict = kind in names or (c is not None and any(k.name in names for k in c.mro()))
        elif isinstance(t, ast.Name) and isinstance(env.get(t.id), tuple) and env[t.id][0] == "const":
            verdict = bool(env[t.id][1])
        elif isinstance(t, ast.Name) and env.get(t.id) == OPAQUE:
            # a flag stored with the items of a collection field: which values the reader can give it is not known here (the flow analysis
            # binds it when it is a constant) - exploring a value the reader never produces would report text nobody can print
            raise Undecided(f"truth value of `{t.id}` (an item component the reader's flow does not determine)")
        elif isinstance(t, ast.Name):
            verdict = self._module_constant(t.id)
        elif isinstance(t, ast.Compare) and len(t.ops) == 1 and isinstance(t.ops[0], (ast.Is, ast.IsNot)) and isinstance(t.comparators[0], ast.Constant) and t.comparators[0].value is None \
                and self._fld(t.left):
            f = self.fill.get(self._fld(t.left), "absent")
            if f != "absent":
                verdict = (f is None) == isinstance(t.ops[0], ast.Is)
        elif isinstance(t, ast.Call) and isinstance(t.func, ast.Attribute) and t.func.attr == "startswith" and isinstance(t.func.value, ast.Name) and t.func.value.id in env \
                and len(t.args) == 1 and isinstance(t.args[0], ast.Constant) and isinstance(t.args[0].value, str):
            prefix = tuple(self.cfg.lex(t.args[0].value))
            res = []
            for form in env[t.func.value.id]:
                head = form[:len(prefix)]
                if any(k == "N" for k, _ in head):
                    raise Undecided("startswith on a form that begins with a hole")
                e2 = dict(env)
                e2[t.func.value.id] = [form]
                res.append(((head == prefix) != neg, e2))
            return res
        if verdict is None:
            return [(True, env), (False, env)]
        return [(verdict != neg, env)]

    def _domain(self, subject: ast.AST) -> Optional[set]:
        """Values a field can hold when the constructor asserts membership in a literal collection."""
        f = self_attr(subject)
        if f is None:
            return None
        for init in [k.methods["__init__"] for k in self.cls.mro() if "__init__" in k.methods]:
            param = None
            for st in ast.walk(init.node):
                if isinstance(st, ast.Assign) and self_attr(st.targets[0]) == f and isinstance(st.value, ast.Name):
                    param = st.value.id
            if param is None:
                continue
            for st in ast.walk(init.node):
                if isinstance(st, ast.Assert) and isinstance(st.test, ast.Compare) and len(st.test.ops) == 1 and isinstance(st.test.ops[0], ast.In) \
                        and isinstance(st.test.left, ast.Name) and st.test.left.id == param and isinstance(st.test.comparators[0], (ast.Tuple, ast.List, ast.Set)) \
                        and all(isinstance(x, ast.Constant) for x in st.test.comparators[0].elts):
                    return {x.value for x in st.test.comparators[0].elts}  # type: ignore[union-attr]
        return None

    def _class_named(self, name: str) -> Optional[ClassInfo]:
        for mod in self.eng.ix.modules.values():
            if name in mod.classes and mod.name.startswith("fandango."):
                return mod.classes[name]
        return None

    def _module_constant(self, name: str) -> Optional[bool]:
        mod = self.eng.ix.modules[self.fn.module]
        src = mod
        if name in mod.imports:
            base, attr = mod.imports[name]
            if attr is None or base not in self.eng.ix.modules:
                return None
            src, name = self.eng.ix.modules[base], attr
        vals = [v.value if isinstance(v, (ast.Assign, ast.AnnAssign)) else v for v in src.globals_assigned.get(name, [])]
        if not hasattr(self, "_rebound"):
            from .common_fitness import rebound_module_state
            self._rebound = rebound_module_state(self.eng)
        if len(vals) == 1 and isinstance(vals[0], ast.Constant) and isinstance(vals[0].value, bool) and (src.name, name) not in self._rebound:
            return vals[0].value
        return None

    # ---- expressions --------------------------------------------------------------------------------------------------
    def _expr(self, e: ast.AST, env: dict[str, list[Form]]) -> list[Form]:
        if isinstance(e, ast.Constant) and isinstance(e.value, str):
            return [tuple(self.cfg.lex(e.value))]
        if isinstance(e, ast.JoinedStr):
            parts = [self._expr(v.value if isinstance(v, ast.FormattedValue) else v, env) for v in e.values]
            return [tuple(itertools.chain.from_iterable(c)) for c in itertools.product(*parts)][:64]
        if isinstance(e, ast.BinOp) and isinstance(e.op, ast.Add):
            return [a + b for a in self._expr(e.left, env) for b in self._expr(e.right, env)][:64]
        if isinstance(e, ast.Name):
            if e.id in env and isinstance(env[e.id], list):
                return env[e.id]
            raise Undecided(f"name `{e.id}`")
        if isinstance(e, ast.IfExp):
            out: list[Form] = []
            for verdict, e2 in self._test(e.test, env):
                out += self._expr(e.body if verdict else e.orelse, e2)
            return out
        if isinstance(e, ast.Attribute):
            a = self_attr(e)
            if a is not None:
                return self._field_text(a)
            # self.<enum field>.value
            if e.attr == "value" and isinstance(e.value, ast.Attribute) and self_attr(e.value):
                tys = self.eng.env(self.fn).type_of(e.value)
                for fq in tys:
                    c = self.eng.ix.class_by_fq(fq) if hasattr(self.eng.ix, "class_by_fq") else self._class_named(fq.split(":")[-1])
                    if c is not None and any("Enum" in b for b in c.base_exprs):
                        vals = [v.value for v in c.class_attrs.values() if isinstance(v, ast.Constant) and isinstance(v.value, str)]
                        if vals:
                            return [tuple(self.cfg.lex(v)) for v in vals]
            raise Undecided(f"attribute `{short(e)}`")
        if isinstance(e, ast.Call):
            f = e.func

            def opaque(x: ast.AST) -> bool:
                while isinstance(x, ast.Attribute):
                    x = x.value
                return isinstance(x, ast.Name) and env.get(x.id) == OPAQUE

            if isinstance(f, ast.Attribute) and f.attr == "format_as_spec" and self._fld(f.value):
                return self._field_print(self._fld(f.value))  # type: ignore[arg-type]
            # a module-level helper called with an item of a collection field (`_slice_as_spec(slice_)`): evaluated in line, the parameter opaque
            if isinstance(f, ast.Name) and len(e.args) == 1 and not e.keywords and opaque(e.args[0]) and f.id in self.eng.ix.modules[self.fn.module].functions:
                h = self.eng.ix.modules[self.fn.module].functions[f.id]
                params = h.params()
                if len(params) == 1:
                    sub0: list[Form] = []
                    self._block(list(h.node.body), {params[0]: OPAQUE}, sub0, None)  # type: ignore[attr-defined]
                    if sub0:
                        return list(dict.fromkeys(sub0))
            # a module-level helper of the printer's module, called with one field: evaluated in line
            if isinstance(f, ast.Name) and len(e.args) == 1 and not e.keywords and self._fld(e.args[0]) and f.id in self.eng.ix.modules[self.fn.module].functions:
                h = self.eng.ix.modules[self.fn.module].functions[f.id]
                params = h.params()
                if len(params) == 1:
                    saved = dict(self.alias)
                    self.alias[params[0]] = self._fld(e.args[0])  # type: ignore[assignment]
                    sub: list[Form] = []
                    try:
                        self._block(list(h.node.body), {}, sub, None)  # type: ignore[attr-defined]
                    finally:
                        self.alias = saved
                    if sub:
                        return sub
            if isinstance(f, ast.Name) and f.id in ("repr", "str") and len(e.args) == 1 and opaque(e.args[0]):
                return [(("T", "NUMBER"),)]  # items of slice lists are integers (the reader builds them with int())
            if isinstance(f, ast.Attribute) and f.attr == "format_as_spec" and opaque(f.value):
                return [NT_FORM]  # the printable items of a collection field are symbols
            if isinstance(f, ast.Attribute) and f.attr == "join" and isinstance(f.value, ast.Constant) and isinstance(f.value.value, str) and len(e.args) == 1:
                sep = tuple(self.cfg.lex(f.value.value))
                arg = e.args[0]
                elt_forms: Optional[list[Form]] = None
                if isinstance(arg, ast.Name) and isinstance(env.get(arg.id), ListAcc):
                    elt_forms = sorted(env[arg.id].elems)
                    if not elt_forms:
                        raise Undecided("join over a list nothing was appended to")
                if isinstance(arg, (ast.GeneratorExp, ast.ListComp)) and len(arg.generators) == 1 and self_attr(arg.generators[0].iter):
                    elt_forms = self._field_print(self_attr(arg.generators[0].iter), element=True)  # type: ignore[arg-type]
                elif isinstance(arg, ast.Call) and isinstance(arg.func, ast.Name) and arg.func.id == "map" and len(arg.args) == 2 and self_attr(arg.args[1]):
                    elt_forms = self._field_print(self_attr(arg.args[1]), element=True)  # type: ignore[arg-type]
                if elt_forms is None:
                    raise Undecided(f"join over `{short(arg, 40)}`")
                return [x for x in elt_forms] + [x + sep + y for x in elt_forms for y in elt_forms][:32]
            if isinstance(f, ast.Name) and f.id in ("str", "repr") and len(e.args) == 1:
                a = self_attr(e.args[0])
                if a is not None:
                    return self._field_text(a)
            raise Undecided(f"call `{short(e, 50)}`")
        raise Undecided(f"expression `{short(e, 50)}`")

    def _field_print(self, field: str, element: bool = False) -> list[Form]:
        f = self.fill.get(field)
        if not isinstance(f, tuple):
            raise Undecided(f"no occupant chosen for self.{field}")
        return [f[1]]

    def _field_text(self, field: str) -> list[Form]:
        """A field used as text: a string attribute holds expression text; an occupant chosen as identifier prints as NAME."""
        f = self.fill.get(field)
        if isinstance(f, tuple):
            return [f[1]]
        for init in [k.methods["__init__"] for k in self.cls.mro() if "__init__" in k.methods]:
            for st in ast.walk(init.node):
                if isinstance(st, (ast.Assign, ast.AnnAssign)):
                    tg = st.targets[0] if isinstance(st, ast.Assign) else st.target
                    if self_attr(tg) == field and isinstance(st.value, ast.Name):
                        for a in init.node.args.args + init.node.args.kwonlyargs:  # type: ignore[attr-defined]
                            if a.arg == st.value.id and a.annotation is not None and norm(a.annotation) == "str":
                                return [(EXPR,)]
        raise Undecided(f"text of self.{field}")


# ---------------------------------------------------------------------------------------------------------------- 3. the rule
def field_of_param(cls: ClassInfo) -> dict[str, str]:
    """constructor parameter -> field (`self.f = p`), positional order included as '#i'."""
    init = cls.lookup("__init__")
    out: dict[str, str] = {}
    if init is None:
        return out
    params = [a.arg for a in init.node.args.args][1:]  # type: ignore[attr-defined]
    for st in ast.walk(init.node):
        if isinstance(st, (ast.Assign, ast.AnnAssign)):
            tg = st.targets[0] if isinstance(st, ast.Assign) else st.target
            f = self_attr(tg)
            if f and isinstance(st.value, ast.Name) and st.value.id in params:
                out[st.value.id] = f
                out[f"#{params.index(st.value.id)}"] = f
    return out


def printer_reader_rule(chk: Check, eng: Engine, rule: str) -> None:
    cfg = sentential.load(eng)
    sentential.self_check(cfg)
    base = eng.cls(SEARCH, "NonTerminalSearch")
    searches = {c.name: c for c in base.all_subclasses() if c.module == SEARCH}
    cons_base = eng.cls("fandango.constraints.constraint", "Constraint")
    constraints = {c.name: c for c in cons_base.all_subclasses() if c.lookup("format_as_spec") is not None and c.module.startswith("fandango.constraints")}
    quantifiers = {n: c for n, c in constraints.items() if n in ("ForallConstraint", "ExistsConstraint")}
    procs = [eng.cls(CONVERT, "SearchProcessor"), eng.cls(CONVERT, "ConstraintProcessor")]
    flow = Flow(eng, set(searches) | set(constraints), procs, cfg)

    # occupants of the search-typed fields, from the constructor sites of the reader
    occupants: dict[tuple[str, str], set[str]] = {}
    unknown: set[tuple[str, str]] = set()
    field_abs: dict[tuple[str, str], object] = {}
    for cname, sites in flow.sites.items():
        c = searches.get(cname) or constraints.get(cname)
        assert c is not None
        fmap = field_of_param(c)
        for fn, call, args, kws in sites:
            for key, val in [(f"#{i}", v) for i, v in enumerate(args)] + list(kws.items()):
                f = fmap.get(key)
                if f is None:
                    continue
                field_abs[(cname, f)] = Flow._join(field_abs.get((cname, f)), val) if (cname, f) in field_abs else val
                if isinstance(val, frozenset):
                    occupants.setdefault((cname, f), set()).update(x for x in val if x in searches)
                elif val is None:
                    unknown.add((cname, f))
    if not occupants:
        raise AnalysisError("no constructor site of a search class found in the reader")

    pr = Printer(eng, cfg)
    pr.field_abs = field_abs
    undecided: dict[str, str] = {}
    # ---- searches: least fixpoint of the forms each class prints, nesting depth 2 -----------------------------------------
    level: dict[str, list[Form]] = {}

    def search_fields(c: ClassInfo) -> list[str]:
        env = eng.env(c.lookup("format_as_spec"))  # type: ignore[arg-type]
        init = c.lookup("__init__")
        out = []
        if init is None:
            return out
        for f in sorted(set(field_of_param(c).values())):
            tys = env.type_of(ast.parse(f"self.{f}", mode="eval").body)
            if any(t.split(":")[-1] in searches or t == base.fq for t in tys):
                out.append(f)
        return out

    def symbol_fields(c: ClassInfo) -> dict[str, object]:
        env = eng.env(c.lookup("format_as_spec"))  # type: ignore[arg-type]
        out: dict[str, object] = {}
        for f in sorted(set(field_of_param(c).values())):
            tys = env.type_of(ast.parse(f"self.{f}", mode="eval").body)
            if any(t.endswith(":NonTerminal") for t in tys):
                out[f] = ("NonTerminal", NT_FORM)
        return out

    for depth in range(3):
        new: dict[str, list[Form]] = {}
        for name, c in sorted(searches.items()):
            if name in undecided or c.methods.get("format_as_spec") is None:
                continue
            fields = search_fields(c)
            fixed = symbol_fields(c)
            got: list[Form] = []
            try:
                if not fields:
                    got = pr.forms(c, fixed)
                else:
                    cands = {f: [(k, form) for k in sorted(occupants.get((name, f), set())) for form in level.get(k, [])[:3]] for f in fields}
                    if any(not v for v in cands.values()):
                        continue  # no occupant has a form yet at this depth
                    default = {f: v[0] for f, v in cands.items()}
                    seen = set()
                    for f in fields:
                        for cand in cands[f]:
                            fill = dict(fixed)
                            fill.update(default)
                            fill[f] = cand
                            key = tuple(sorted((k, v[0], v[1]) for k, v in fill.items() if isinstance(v, tuple)))
                            if key in seen:
                                continue
                            seen.add(key)
                            for form in pr.forms(c, fill):
                                who = ", ".join(f"{k}={v[0]}" for k, v in sorted(fill.items()) if isinstance(v, tuple) and k in fields)
                                if check_form(chk, eng, rule, cfg, c, SEARCH_RULE, form, who):
                                    got.append(form)  # only text the reader accepts is nested further (no follow-up reports)
            except Undecided as u:
                undecided[name] = str(u)
                continue
            if not fields:
                got = [form for form in got if check_form(chk, eng, rule, cfg, c, SEARCH_RULE, form, "")]
            new[name] = list(dict.fromkeys(got))
        for k, v in new.items():
            level[k] = list(dict.fromkeys(level.get(k, []) + v))[:6]
    # AnnotatedSearch and other delegating wrappers print their inner search: nothing of their own
    # ---- constraints, as FandangoSpec.__repr__ emits them ------------------------------------------------------------------
    spec = eng.cls("fandango.language.parse.spec", "FandangoSpec")
    rep = spec.lookup("__repr__")
    if rep is None:
        raise AnalysisError("FandangoSpec.__repr__ not found")
    soft = eng.cls("fandango.constraints.soft", "SoftValue")
    line_forms: dict[str, list[Form]] = {}
    cons_level: dict[str, list[Form]] = {}
    all_cons = dict(constraints)
    all_cons["SoftValue"] = soft
    for depth in range(2):
        new_c: dict[str, list[Form]] = {}
        for name, c in sorted(all_cons.items()):
            if name in undecided or name == "RepetitionBoundsConstraint":
                continue
            if name != "SoftValue" and name not in flow.sites:
                continue  # never built by the reader (ImplicationConstraint: the `->` syntax is rejected since it was deprecated)
            env = eng.env(c.lookup("format_as_spec"))  # type: ignore[arg-type]
            fmap = sorted(set(field_of_param(c).values()))
            cfields, sfields, lfields = [], [], []
            fixed: dict[str, object] = {}
            for f in fmap:
                node = ast.parse(f"self.{f}", mode="eval").body
                tys, el = env.type_of(node), env.elem_type_of(node)
                if any(t == cons_base.fq or t.split(":")[-1] in all_cons for t in tys):
                    cfields.append(f)
                elif any(t == cons_base.fq for t in el):
                    lfields.append(f)
                elif any(t == base.fq or t.split(":")[-1] in searches for t in tys):
                    sfields.append(f)
                elif any(t.endswith(":NonTerminal") for t in tys):
                    fixed[f] = ("NonTerminal", NT_FORM)
            try:
                cands: dict[str, list[tuple[str, Form]]] = {}
                for f in cfields + lfields:
                    cands[f] = [(k, form) for k in sorted(constraints) if k in flow.sites for form in cons_level.get(k, [])[:2]]
                for f in sfields:
                    occ = occupants.get((name, f), set()) or set(searches)
                    cands[f] = [(k, form) for k in sorted(occ) for form in level.get(k, [])[:2]]
                if any(not v for v in cands.values()):
                    continue
                default = {f: v[0] for f, v in cands.items()}
                got = []
                variants: list[dict[str, object]] = []
                if not cands:
                    variants.append(dict(fixed))
                for f in cands:
                    for cand in cands[f]:
                        fill = dict(fixed)
                        fill.update(default)
                        fill[f] = cand
                        variants.append(fill)
                if name in quantifiers and "bound" in fmap:
                    # the bound variable is a nonterminal or a plain identifier
                    variants += [dict(v, bound=("str", (("T", "NAME"),))) for v in variants[:1]]
                seen_forms = set()
                for fill in variants:
                    for form in pr.forms(c, fill):
                        who = ", ".join(f"{k}={v[0]}" for k, v in sorted(fill.items()) if isinstance(v, tuple) and k in cands)
                        if (form, who) in seen_forms:
                            continue
                        seen_forms.add((form, who))
                        # the line FandangoSpec.__repr__ writes for this constraint
                        if all([check_form(chk, eng, rule, cfg, c, "constraint", line + (("T", "NEWLINE"),), who, via=rep) for line in spec_lines(pr, spec, rep, name, form)]):
                            got.append(form)
                new_c[name] = list(dict.fromkeys(got))
            except Undecided as u:
                undecided[name] = str(u)
        for k, v in new_c.items():
            cons_level[k] = list(dict.fromkeys(cons_level.get(k, []) + v))[:6]
    for name, why in sorted(undecided.items()):
        chk.not_decided.append(f"printer of {name} (not evaluated symbolically: {why})")
    chk.extra.pop("_r15f_seen", None)
    chk.extra["printer_reader"] = {"search_forms": {k: [sentential.show(f) for f in v] for k, v in level.items()},
                                   "occupants": {f"{k[0]}.{k[1]}": sorted(v) for k, v in occupants.items()}, "undecided": undecided}
    if len(level) < 4:
        raise AnalysisError(f"only {len(level)} search printers could be evaluated ({sorted(level)}); undecided: {undecided}")


def spec_lines(pr: Printer, spec: ClassInfo, rep: FuncInfo, cname: str, form: Form) -> list[Form]:
    """The text FandangoSpec.__repr__ joins for one constraint: the element expression of its `"\\n".join(<genexp over self.constraints>)`."""
    for n in ast.walk(rep.node):
        if isinstance(n, ast.Call) and isinstance(n.func, ast.Attribute) and n.func.attr == "join" and n.args and isinstance(n.args[0], ast.GeneratorExp):
            g = n.args[0]
            if len(g.generators) == 1 and self_attr(g.generators[0].iter) == "constraints" and isinstance(g.generators[0].target, ast.Name):
                var = g.generators[0].target.id
                return _elt(pr, g.elt, var, cname, form)
    raise AnalysisError("FandangoSpec.__repr__: the line written per constraint was not recognised")


def _elt(pr: Printer, e: ast.AST, var: str, cname: str, form: Form) -> list[Form]:
    if isinstance(e, ast.Constant) and isinstance(e.value, str):
        return [tuple(pr.cfg.lex(e.value))]
    if isinstance(e, ast.BinOp) and isinstance(e.op, ast.Add):
        return [a + b for a in _elt(pr, e.left, var, cname, form) for b in _elt(pr, e.right, var, cname, form)]
    if isinstance(e, ast.Call) and isinstance(e.func, ast.Attribute) and e.func.attr == "format_as_spec" and isinstance(e.func.value, ast.Name) and e.func.value.id == var:
        return [form]
    if isinstance(e, ast.IfExp):
        t = e.test
        if isinstance(t, ast.Call) and isinstance(t.func, ast.Name) and t.func.id == "isinstance" and isinstance(t.args[0], ast.Name) and t.args[0].id == var:
            names = [norm(x).split(".")[-1] for x in (t.args[1].elts if isinstance(t.args[1], ast.Tuple) else [t.args[1]])]
            c = pr._class_named(cname)
            yes = c is not None and any(k.name in names for k in c.mro())
            return _elt(pr, e.body if yes else e.orelse, var, cname, form)
        return _elt(pr, e.body, var, cname, form) + _elt(pr, e.orelse, var, cname, form)
    if isinstance(e, ast.JoinedStr):
        parts = [_elt(pr, v.value if isinstance(v, ast.FormattedValue) else v, var, cname, form) for v in e.values]
        return [tuple(itertools.chain.from_iterable(c)) for c in itertools.product(*parts)]
    raise AnalysisError(f"FandangoSpec.__repr__: `{short(e, 60)}` not understood")


def check_form(chk: Check, eng: Engine, rule: str, cfg: sentential.CFG, c: ClassInfo, start: str, form: Form, who: str, via: Optional[FuncInfo] = None) -> bool:
    m = c.lookup("format_as_spec")
    assert m is not None
    text = sentential.show(form)
    if cfg.derives(start, form):
        seen = chk.extra.setdefault("_r15f_seen", set())
        if (c.name, who, start) not in seen:  # one instance per printer and choice of occupants; the forms themselves are listed in `printer_reader`
            seen.add((c.name, who, start))
            chk.ok(rule, m.fq, m.line, f"`{text}`" + (f" ({who})" if who else "") + f" is a `{start}` (and so are the other forms of this choice of occupants)", nontrivial=bool(who))
        return True
    else:
        where = via or m
        chk.bad(rule, eng.relfile(m), m.line, m.fq, f"{c.name} prints `{text}`" + (f" with {who}" if who else "") + f", which the reader's rule `{start}` cannot derive"
                + (f" (line written by {where.qualname})" if via else ""),
                "the printed spec cannot be read back (or is read as something else): `convert`, the shell and the language tooling emit this text",
                keyparts=f"underivable|{c.name}|{start}")  # one report per printer; the first underivable form is the example
        return False
