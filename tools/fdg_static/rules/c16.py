"""C16 - generator-defined fields carry generator output and are not edited behind it.

R16-a  the substitution guard of replace_multiple contains `not self.read_only` (shared with C01).
R16-b  generated children are sealed on every path: in the generator branch of
       NonTerminalNode.fuzz every path from grammar.generate(...) to parent.add_child(generated)
       passes the loop that calls set_all_read_only(True) on every child; likewise
       Grammar._populate_sources after derive_sources.
R16-c  a misfit raises: in Grammar.generate the None result of self.parse leads to `raise` on all
       paths, the parse runs under the generator's own symbol, and nothing substitutes the tree.
R16-d  regeneration: in replace_multiple, on every path where a source was replaced the returned
       node's children come from derive_generator_output or its sources are cleared.
R16-e  operators pick only writable targets: the candidate lists of mutation and crossover come
       from find_all_nodes / get_non_terminal_symbols with exclude_read_only left at its default
       True, or from an explicit `not x.read_only` filter.
"""

from __future__ import annotations

import ast

from ..core import AnalysisError, call_name, get_kwarg, norm, self_attr, short, walk_local
from ..engine import Engine
from ..report import Check
from .c01 import replace_guard

NODES = "fandango.language.grammar.nodes"
GRAMMAR = "fandango.language.grammar.grammar"
TREE = "fandango.language.tree"


def sealing_loops(fn_node: ast.AST) -> list[ast.For]:
    out = []
    for n in ast.walk(fn_node):
        if isinstance(n, ast.For) and any(isinstance(c, ast.Call) and call_name(c) == "set_all_read_only" and c.args and isinstance(c.args[0], ast.Constant)
                                           and c.args[0].value is True for c in ast.walk(n)):
            out.append(n)
    return out


def generate_parse_rule(chk: Check, eng: Engine, rule: str) -> None:
    """What Grammar.generate hands out for a generator-defined symbol is the *parse result* of the generator's value under that symbol: a
    derivation by construction.  The value is parsed under the generator's own symbol, a misfit raises on every path, and nothing else is
    ever substituted for the parsed tree (not a fuzzed tree, not a tree the generator built itself)."""
    g = eng.cls(GRAMMAR, "Grammar")
    # ---- R16-c ---------------------------------------------------------------
    gen = eng.method(g, "generate", inherited=False)
    gcfg = eng.cfg(gen)
    parses = [n for n in gcfg.nodes if n.kind == "stmt" and isinstance(n.ast, ast.Assign) and isinstance(n.ast.value, ast.Call) and call_name(n.ast.value) == "parse"]
    if len(parses) != 1:
        raise AnalysisError("Grammar.generate: `tree = self.parse(...)` not found")
    pcall = parses[0].ast.value  # type: ignore[union-attr]
    tvar = parses[0].ast.targets[0].id  # type: ignore[union-attr]
    start = pcall.args[1] if len(pcall.args) > 1 else get_kwarg(pcall, "start")
    if start is not None and isinstance(start, ast.Name) and start.id in gen.params():
        chk.ok(rule, gen.fq, parses[0].line, f"generator output is parsed under the generator's own symbol (`{short(pcall)}`)")
    else:
        chk.bad(rule, eng.relfile(gen), parses[0].line, gen.fq, f"`{short(pcall)}` does not parse under the generator's symbol",
                "generated text is fitted to another rule than the symbol's", keyparts="generate-start")
    none_ifs = [n for n in gcfg.nodes if n.kind == "if" and norm(n.ast.test) in (f"{tvar} is None", f"not {tvar}")]  # type: ignore[union-attr]
    if not none_ifs:
        chk.bad(rule, eng.relfile(gen), parses[0].line, gen.fq, "the result of self.parse is not checked for None", "a generator value that does not fit the rule is used as if it did", keyparts="no-none-check")
    for ni in none_ifs:
        tb = gcfg.true_branch_nodes(ni.id)
        exits_normally = gcfg.find_path(ni.id, [gcfg.exit], ignore_edges={(ni.id, "false")}) is not None
        raises = any(gcfg.nodes[i].kind == "stmt" and isinstance(gcfg.nodes[i].ast, ast.Raise) for i in tb)
        if raises and not exits_normally:
            chk.ok(rule, gen.fq, ni.line, f"`{ni.text()}` -> raise on every path")
        else:
            chk.bad(rule, eng.relfile(gen), ni.line, gen.fq, f"`{ni.text()}` does not raise on every path",
                    "a generator value that does not parse under the symbol's rule is silently replaced or ignored", keyparts="misfit-no-raise")
    reassigned = [n for n in walk_local(gen.node) if isinstance(n, ast.Assign) and any(isinstance(t, ast.Name) and t.id == tvar for t in n.targets) and n is not parses[0].ast]
    if reassigned:
        chk.bad(rule, eng.relfile(gen), reassigned[0].lineno, gen.fq, f"`{short(reassigned[0])}` substitutes the parsed generator output", "the tree is not what the generator returned", keyparts="tree-substituted")
    else:
        chk.ok(rule, gen.fq, parses[0].line, f"`{tvar}` is assigned exactly once (no substitute tree)")



def run(chk: Check, eng: Engine) -> None:
    chk.rule("R16-a", "a read-only (generator-owned) node is never the target of a substitution", floor=2)
    chk.rule("R16-b", "generated children are marked read-only on every path before the generated subtree is attached", floor=2)
    chk.rule("R16-h", "what Grammar.generate returns is used for the request at hand and never kept in a container that outlives the call (no memo of generator output)", floor=2)
    chk.rule("R16-c", "a generator value that does not parse under the symbol's rule raises; nothing substitutes it", floor=3)
    chk.rule("R16-d", "when a generator argument was replaced the generated children are re-derived (or the sources are cleared)", floor=2)
    chk.rule("R16-e", "mutation and crossover choose their targets among writable nodes only", floor=4)
    chk.not_decided.append("that generated text equals what the generator returned for the recorded arguments (values)")

    replace_guard(chk, eng, "R16-a", {"read_only"})

    # ---- R16-b ---------------------------------------------------------------
    # every site that obtains generator output (Grammar.generate) and lets it escape - attached to a tree or returned - seals its children first
    ntn = eng.cls(f"{NODES}.non_terminal", "NonTerminalNode")
    gcls = eng.cls(GRAMMAR, "Grammar")
    SOURCES_ONLY = {f"{GRAMMAR}:Grammar.derive_sources": "the generated trees become *sources* (arguments recorded with the tree), not text of the tree; their own generator children are "
                                                       "sealed through populate_sources(child)"}
    n_sites = 0
    for f in eng.ix.all_functions:
        if not f.module.startswith(("fandango.language", "fandango.evolution", "fandango.constraints", "fandango.io")):
            continue
        def gen_call(v: ast.AST) -> Optional[ast.Call]:
            """`<grammar>.generate(...)`, possibly with `.children` taken from it at once"""
            if isinstance(v, ast.Attribute) and v.attr in ("children", "_children"):
                v = v.value
            if isinstance(v, ast.Call) and call_name(v) == "generate" and isinstance(v.func, ast.Attribute) and norm(v.func.value).split(".")[-1] in ("grammar", "self", "_grammar"):
                return v
            return None

        calls = [n for n in walk_local(f.node) if isinstance(n, ast.Assign) and len(n.targets) == 1 and isinstance(n.targets[0], ast.Name) and gen_call(n.value) is not None]
        if f.cls is not gcls:
            calls = [c for c in calls if norm(gen_call(c.value).func.value) != "self"]  # self.generate of the search driver is another function
        if not calls:
            continue
        cfg = eng.cfg(f)
        for call in calls:
            n_sites += 1
            gvar = call.targets[0].id  # type: ignore[union-attr]
            gnode = [n for n in cfg.nodes if n.kind == "stmt" and n.ast is call]
            if not gnode:
                raise AnalysisError(f"{f.fq}: generate(...) statement not in the CFG")
            if f.fq in SOURCES_ONLY:
                ok_src = any(isinstance(c, ast.Call) and call_name(c) == "populate_sources" for c in walk_local(f.node))
                if ok_src:
                    chk.ok("R16-b", f.fq, call.lineno, f"`{short(call, 50)}`: {SOURCES_ONLY[f.fq]}", nontrivial=False)
                else:
                    chk.bad("R16-b", eng.relfile(f), call.lineno, f.fq, "generated source trees are no longer passed through populate_sources", "nested generator output inside a recorded argument stays editable", keyparts="sources-unsealed")
                continue

            def mentions(e: ast.AST) -> bool:
                return any(isinstance(x, ast.Name) and x.id == gvar for x in ast.walk(e))
            escapes = [n for n in cfg.nodes if n.kind == "stmt" and n.ast is not None and (
                (isinstance(n.ast, ast.Return) and n.ast.value is not None and mentions(n.ast.value)) or
                any(isinstance(c, ast.Call) and call_name(c) in ("add_child", "set_children", "append", "extend", "insert") and any(mentions(a_) for a_ in c.args) for c in ast.walk(n.ast)))]
            # R16-h: what a generator returned is used for this request - it is never kept in a container that outlives the call
            stored = [n for n in cfg.nodes if n.kind == "stmt" and isinstance(n.ast, ast.Assign) and any(isinstance(t, ast.Subscript) for t in n.ast.targets) and mentions(n.ast.value)]
            for st in stored:
                chk.bad("R16-h", eng.relfile(f), st.line, f.fq, f"`{short(st.ast, 60)}` keeps the output of `{short(call.value, 40)}` beyond the call",
                        "generators are the spec's own code (random, stateful, different from spec to spec): a memo of their output - keyed by symbol and argument text - hands one spec's "
                        "value to another spec with a same-named symbol, or an old value to a revised generator; the field is then not what its generator computes from the recorded arguments",
                        keyparts=f"generator-output-memoised|{f.qualname}")
            if not stored:
                chk.ok("R16-h", f.fq, call.lineno, f"the output of `{short(call.value, 40)}` is not stored in any container")
            if not escapes and stored:
                continue  # reported above; the sealing question of R16-b is moot for a value that comes out of a memo
            if not escapes:
                raise AnalysisError(f"{f.fq}: the output of generate(...) neither escapes nor is attached")
            # gvar is the generated tree - sealed by a loop over `gvar.children` - or, when `.children` was taken at once, the list of children itself
            is_children = isinstance(call.value, ast.Attribute)
            seals = [l for l in sealing_loops(f.node) if
                     (not is_children and isinstance(l.iter, ast.Attribute) and isinstance(l.iter.value, ast.Name) and l.iter.value.id == gvar and l.iter.attr in ("children", "_children"))
                     or (is_children and isinstance(l.iter, ast.Name) and l.iter.id == gvar)]
            seal_nodes = [i for l in seals for i in cfg.nodes_of(l, {"for"})]
            direct = [n.id for n in cfg.nodes if n.kind == "stmt" and n.ast is not None and any(
                isinstance(c, ast.Call) and call_name(c) == "set_all_read_only" and isinstance(c.func, ast.Attribute) and isinstance(c.func.value, ast.Name) and c.func.value.id == gvar
                and c.args and isinstance(c.args[0], ast.Constant) and c.args[0].value is True for c in ast.walk(n.ast))]
            for a in escapes:
                p = cfg.find_path(gnode[0].id, [a.id], avoid=seal_nodes + direct)
                if p is None and (seal_nodes or direct):
                    chk.ok("R16-b", f.fq, a.line, f"`{a.text()}` is reached only after every child of `{gvar}` was marked read-only")
                else:
                    users = sorted(c.split(":")[-1] for c in eng.cg.callers_of(f.fq))[:4] if isinstance(a.ast, ast.Return) else []
                    chk.bad("R16-b", eng.relfile(f), a.line, f.fq, f"`{a.text()}` lets generator output escape whose children are still writable" + (f" (used by {', '.join(users)})" if users else ""),
                            "mutation / crossover / repair may then edit text that a generator produced, without re-running the generator",
                            path=cfg.describe_path(p) if p else [], keyparts="attach-unsealed")
            # the sealing loop body must not be conditional
            for l in seals:
                if not (len(l.body) == 1 and isinstance(l.body[0], ast.Expr)):
                    conds = [x for x in ast.walk(l) if isinstance(x, (ast.If, ast.Continue, ast.Break))]
                    if conds:
                        chk.bad("R16-b", eng.relfile(f), l.lineno, f.fq, f"the sealing loop `{short(l, 60)}` skips some children", "part of the generated text stays editable", keyparts="seal-partial")
    if n_sites < 3:
        raise AnalysisError(f"only {n_sites} Grammar.generate call site(s) found")
    g = eng.cls(GRAMMAR, "Grammar")
    ps = eng.method(g, "_populate_sources", inherited=False)
    pcfg = eng.cfg(ps)
    ders = [n for n in pcfg.nodes if n.kind == "stmt" and n.ast is not None and any(isinstance(c, ast.Call) and call_name(c) == "derive_sources" for c in ast.walk(n.ast))]
    pseal = [i for l in sealing_loops(ps.node) for i in pcfg.nodes_of(l, {"for"})]
    if not ders:
        raise AnalysisError("Grammar._populate_sources: derive_sources call not found")
    for d in ders:
        p = pcfg.find_path(d.id, [pcfg.exit], avoid=pseal)
        if p is None and pseal:
            chk.ok("R16-b", ps.fq, d.line, "after derive_sources every path marks the node's children read-only before returning")
        else:
            chk.bad("R16-b", eng.relfile(ps), d.line, ps.fq, "sources are derived for a generator node but its children are not sealed on every path",
                    "a parsed / repaired tree carries generator output that search operators may edit", path=pcfg.describe_path(p) if p else [], keyparts="populate-unsealed")

    generate_parse_rule(chk, eng, "R16-c")

    # ---- R16-d ---------------------------------------------------------------
    T = eng.cls(TREE, "DerivationTree")
    rm = eng.method(T, "replace_multiple", inherited=False)
    rcfg = eng.cfg(rm)
    regen_if = [n for n in rcfg.nodes if n.kind == "if" and norm(n.ast.test) == "regen_children"]  # type: ignore[union-attr]
    if not regen_if:
        raise AnalysisError("replace_multiple: `if regen_children` not found")
    # regen_children is set when a rebuilt source differs
    setters = [n for n in walk_local(rm.node) if isinstance(n, ast.Assign) and any(isinstance(t, ast.Name) and t.id == "regen_children" for t in n.targets) and isinstance(n.value, ast.Constant) and n.value.value is True]
    from ..core import parents_map, enclosing

    pm = parents_map(rm.node)
    ok_set = False
    for s in setters:
        iff = enclosing(pm, s, (ast.If,))
        lp = enclosing(pm, s, (ast.For,))
        if iff is not None and "!=" in norm(iff.test) and lp is not None and "_sources" in norm(lp.iter):
            ok_set = True
    if ok_set:
        chk.ok("R16-d", rm.fq, setters[0].lineno, "regen_children is raised whenever a rebuilt source differs from the original")
    else:
        chk.bad("R16-d", eng.relfile(rm), rm.line, rm.fq, "regen_children is not set when a source (generator argument) was replaced",
                "the generated children keep the value computed from the old arguments", keyparts="regen-flag")
    ri = regen_if[0]
    tb = rcfg.true_branch_nodes(ri.id)
    regen_nodes = [i for i in tb if rcfg.nodes[i].kind == "stmt" and rcfg.nodes[i].ast is not None and ("derive_generator_output" in norm(rcfg.nodes[i].ast) or norm(rcfg.nodes[i].ast).endswith(".sources = []"))]
    p = rcfg.find_path(ri.id, [rcfg.exit], avoid=regen_nodes, ignore_edges={(ri.id, "false")})
    # a re-derivation that raises has not happened: if a local handler catches the exception and the function still returns normally,
    # the tree keeps the new arguments with the children computed from the old ones
    swallowed = None
    for r_ in regen_nodes:
        for h_, lab_ in rcfg.succ[r_]:
            if lab_ == "exc":
                hp = [(h_, "exc")] if h_ == rcfg.exit else rcfg.find_path(h_, [rcfg.exit], avoid=regen_nodes)
                if hp is not None:
                    swallowed = (r_, h_, hp)
    if swallowed is not None:
        r_, h_, hp = swallowed
        chk.bad("R16-d", eng.relfile(rm), rcfg.nodes[r_].line, rm.fq, f"a failure of `{short(rcfg.nodes[r_].ast, 60)}` is caught (line {rcfg.nodes[h_].line}) and replace_multiple still returns the new tree",
                "the tree records the new generator arguments but keeps the children computed from the old ones, and the misfit of the generator's value is no longer an error",
                path=rcfg.describe_path(hp) if len(hp) > 1 else [], keyparts="regen-failure-swallowed")
    elif p is None and regen_nodes:
        chk.ok("R16-d", rm.fq, ri.line, "with a replaced source every path re-derives the generator output or clears the sources")
    else:
        chk.bad("R16-d", eng.relfile(rm), ri.line, rm.fq, "a path with a replaced source returns without re-running the generator",
                "the field no longer carries what the generator computes from the recorded arguments", path=rcfg.describe_path(p) if p else [], keyparts="regen-skipped")

    # ---- R16-e ---------------------------------------------------------------
    cx = eng.method(eng.cls("fandango.evolution.crossover", "SimpleSubtreeCrossover"), "crossover", inherited=False)
    for c in walk_local(cx.node):
        if isinstance(c, ast.Call) and call_name(c) in ("find_all_nodes", "get_non_terminal_symbols"):
            kw = get_kwarg(c, "exclude_read_only")
            pos = c.args[1] if call_name(c) == "find_all_nodes" and len(c.args) > 1 else (c.args[0] if call_name(c) == "get_non_terminal_symbols" and c.args else None)
            v = kw or pos
            if v is None or (isinstance(v, ast.Constant) and v.value is True):
                chk.ok("R16-e", cx.fq, c.lineno, f"`{short(c)}` excludes read-only nodes (default)")
            else:
                chk.bad("R16-e", eng.relfile(cx), c.lineno, cx.fq, f"`{short(c)}` includes read-only nodes", "crossover may pick generator-owned text as a crossover point", keyparts="crossover-readonly")
    for name in ("find_all_nodes", "get_non_terminal_symbols"):
        m = eng.method(T, name, inherited=False)
        a = m.node.args  # type: ignore[attr-defined]
        dflt = [d for p_, d in zip(a.args[-len(a.defaults):], a.defaults) if p_.arg == "exclude_read_only"]
        uses = "exclude_read_only and self.read_only" in norm(m.node)
        if dflt and isinstance(dflt[0], ast.Constant) and dflt[0].value is True and uses:
            chk.ok("R16-e", m.fq, m.line, f"{name}: exclude_read_only defaults to True and filters `self.read_only`")
        else:
            chk.bad("R16-e", eng.relfile(m), m.line, m.fq, f"{name} does not exclude read-only nodes by default", "search operators see generator-owned nodes as candidates", keyparts=f"default|{name}")
    mu = eng.method(eng.cls("fandango.evolution.mutation", "SimpleMutation"), "mutate", inherited=False)
    mu_mod = eng.ix.modules[mu.module]

    def implies_writable(pred: ast.AST, var: str, depth: int = 0) -> bool:
        """Does `pred` (a boolean expression over `var`) being true imply `not var.read_only`?"""
        if isinstance(pred, ast.BoolOp) and isinstance(pred.op, ast.And):
            return any(implies_writable(v, var, depth) for v in pred.values)
        if isinstance(pred, ast.UnaryOp) and isinstance(pred.op, ast.Not) and norm(pred.operand) in (f"{var}.read_only", f"{var}._read_only"):
            return True
        if isinstance(pred, ast.Call) and depth < 2 and len(pred.args) == 1 and isinstance(pred.args[0], ast.Name) and pred.args[0].id == var:
            callee = None
            if isinstance(pred.func, ast.Name):
                r = eng.ix.resolve_name(mu_mod, pred.func.id)
                callee = r if hasattr(r, "node") and getattr(r, "cls", None) is None else None
            elif isinstance(pred.func, ast.Attribute) and self_attr(pred.func) and mu.cls is not None:
                callee = mu.cls.lookup(pred.func.attr)
            if callee is not None:
                ps = [p_ for p_ in callee.params() if p_ != "self"]
                rets = [r_ for r_ in walk_local(callee.node) if isinstance(r_, ast.Return) and r_.value is not None]
                return bool(ps) and bool(rets) and all(implies_writable(r_.value, ps[0], depth + 1) for r_ in rets)
        return False

    def filtered_writable(e: ast.AST, depth: int = 0) -> bool:
        """Is every element of list expression `e` known to be writable (or the already chosen, writable node itself)?"""
        if isinstance(e, ast.BinOp) and isinstance(e.op, ast.Add):
            return filtered_writable(e.left, depth) and filtered_writable(e.right, depth)
        if isinstance(e, ast.List):
            return all(isinstance(x, ast.Name) and x.id in chosen for x in e.elts)
        if isinstance(e, ast.Call) and isinstance(e.func, ast.Name) and e.func.id in ("list", "tuple", "sorted") and e.args:
            return filtered_writable(e.args[0], depth)
        if isinstance(e, ast.Call) and isinstance(e.func, ast.Name) and e.func.id == "filter" and len(e.args) == 2:
            f_ = e.args[0]
            if isinstance(f_, ast.Lambda) and f_.args.args:
                return implies_writable(f_.body, f_.args.args[0].arg)
            if isinstance(f_, (ast.Name, ast.Attribute)):
                return implies_writable(ast.Call(func=f_, args=[ast.Name(id="_x", ctx=ast.Load())], keywords=[]), "_x")
        if isinstance(e, (ast.ListComp, ast.GeneratorExp)) and len(e.generators) == 1 and isinstance(e.generators[0].target, ast.Name) and isinstance(e.elt, ast.Name) \
                and e.elt.id == e.generators[0].target.id:
            return any(implies_writable(c, e.elt.id) for c in e.generators[0].ifs)
        if isinstance(e, ast.Name) and depth < 3:
            defs = sorted((a for a in walk_local(mu.node) if isinstance(a, ast.Assign) and any(isinstance(t_, ast.Name) and t_.id == e.id for t_ in a.targets)
                           and a.lineno < e.lineno), key=lambda a: a.lineno)
            # a list that is first collected and then re-bound to its filtered self: the last definition before the draw counts
            return bool(defs) and filtered_writable(defs[-1].value, depth + 1)
        return False

    chosen: set[str] = set()
    choices = [c for c in walk_local(mu.node) if isinstance(c, ast.Call) and norm(c.func) == "random.choice"]
    choices.sort(key=lambda c: c.lineno)
    n_ok = 0
    for c in choices:
        if c.args and filtered_writable(c.args[0]):
            n_ok += 1
        for a in walk_local(mu.node):
            if isinstance(a, ast.Assign) and a.value is c:
                chosen |= {t_.id for t_ in a.targets if isinstance(t_, ast.Name)}
    if choices and n_ok == len(choices):
        chk.ok("R16-e", mu.fq, mu.line, f"every list mutate() draws a target from holds only writable nodes ({len(choices)} draw(s))")
    else:
        chk.bad("R16-e", eng.relfile(mu), mu.line, mu.fq, f"mutate() draws {len(choices)} time(s) but only {n_ok} of the candidate lists are filtered for writable nodes",
                "a generator-owned node can be chosen as mutation target", keyparts="mutation-readonly")

    # ---- R16-f ---------------------------------------------------------------
    # a repair that installs *parsed text* (not generator output) must not aim at a generator-defined symbol
    chk.rule("R16-f", "a repair suggestion that installs text parsed from a constraint's other side never targets a generator-defined symbol", floor=1)
    sug = eng.cls("fandango.constraints.failing_tree", "Suggestion")
    n_f = 0
    for sc in sug.all_subclasses():
        gr = sc.methods.get("get_replacements")
        if gr is None:
            continue
        parses = [c for c in walk_local(gr.node) if isinstance(c, ast.Call) and call_name(c) == "parse" and isinstance(c.func, ast.Attribute) and "grammar" in norm(c.func.value)]
        if not parses:
            continue
        n_f += 1
        guards = [t for t in walk_local(gr.node) if isinstance(t, (ast.If, ast.IfExp)) and any(
            (isinstance(x, ast.Attribute) and x.attr in ("generators", "is_use_generator")) for x in ast.walk(t.test))]
        rm_guard = "generators" in norm(eng.method(T, "replace_multiple", inherited=False).node).split("new_subtree = ")[0]
        if guards or rm_guard:
            chk.ok("R16-f", gr.fq, parses[0].lineno, f"`{short(parses[0], 50)}` is guarded by a generator test of the target")
        else:
            chk.bad("R16-f", eng.relfile(gr), parses[0].lineno, gr.fq, f"`{short(parses[0], 60)}` is returned as a replacement for the target whatever the target's symbol",
                    "for a generator-defined target the generated text is overwritten with text the generator never returned (e.g. `<a> ::= ... := new_id()` with `where <a> == \"42\"`)",
                    keyparts="parsed-text-into-generator-symbol")
    if n_f == 0:
        raise AnalysisError("no Suggestion.get_replacements parses text any more")

    # ---- R16-g ---------------------------------------------------------------
    # the read-only mark is taken off only from trees the function has just built (a copy, a parse result, a fuzzed subtree)
    chk.rule("R16-g", "set_all_read_only(False) / read_only = False is applied only to a tree the same function has just created (copy, parse, fuzz)", floor=1)
    FRESH = {"deepcopy", "__deepcopy__", "parse", "fuzz", "DerivationTree", "copy"}
    n_g = 0
    for f in eng.ix.all_functions:
        if not f.module.startswith(("fandango.constraints", "fandango.evolution", "fandango.language.tree", "fandango.language.grammar", "fandango.io", "fandango.api")):
            continue
        if f.name in ("set_all_read_only", "__init__"):
            continue
        sites = []
        for n in walk_local(f.node):
            if isinstance(n, ast.Call) and call_name(n) == "set_all_read_only" and isinstance(n.func, ast.Attribute) and n.args and isinstance(n.args[0], ast.Constant) and n.args[0].value is False:
                sites.append((n, n.func.value))
            if isinstance(n, ast.Assign) and isinstance(n.value, ast.Constant) and n.value.value is False:
                for t in n.targets:
                    if isinstance(t, ast.Attribute) and t.attr in ("read_only", "_read_only"):
                        sites.append((n, t.value))
        for n, recv in sites:
            n_g += 1
            fresh = False
            if isinstance(recv, ast.Name):
                defs = [a for a in walk_local(f.node) if isinstance(a, (ast.Assign, ast.AnnAssign, ast.NamedExpr)) and a.value is not None and
                        any(isinstance(t, ast.Name) and t.id == recv.id for t in (a.targets if isinstance(a, ast.Assign) else [a.target]))]
                fresh = bool(defs) and all(isinstance(d.value, ast.Call) and call_name(d.value) in FRESH for d in defs) and recv.id not in f.params()
            if fresh:
                chk.ok("R16-g", f.fq, n.lineno, f"`{short(n, 60)}`: `{norm(recv)}` was created in this function")
            else:
                chk.bad("R16-g", eng.relfile(f), n.lineno, f.fq, f"`{short(n, 60)}` removes the read-only mark from `{norm(recv)}`, a tree this function did not create",
                        "generator-owned text inside a live individual becomes writable: later mutations and repairs edit it without re-running the generator",
                        keyparts=f"unseal-live|{norm(recv)}")
    if n_g == 0:
        raise AnalysisError("no site removes a read-only mark any more (R16-g has lost its instances)")


# ------------------------------------------------------------------ self-test variants
from ..mutants import M  # noqa: E402

_T = "src/fandango/language/tree.py"
_NT = "src/fandango/language/grammar/nodes/non_terminal.py"
_G = "src/fandango/language/grammar/grammar.py"
_MU = "src/fandango/evolution/mutation.py"
_CX = "src/fandango/evolution/crossover.py"
MUTANTS = [
    M("generator-output-memoised-per-arguments", "src/fandango/language/grammar/grammar.py", "        generated = self.generate(tree.nonterminal, tree.sources)\n        # Prevent children from being overwritten without executing generator\n        for child in generated.children:\n            child.set_all_read_only(True)\n        return generated.children\n",
      "        key = (tree.nonterminal, tuple(hash(s) for s in tree.sources))\n        if key not in self._generated:\n            generated = self.generate(tree.nonterminal, tree.sources)\n            for child in generated.children:\n                child.set_all_read_only(True)\n            self._generated[key] = generated.children\n        return [c.deepcopy(copy_parent=False) for c in self._generated[key]]\n", "R16-h"),
    M("regen-failure-logged-and-ignored", _T, "            else:\n                new_tree.set_children(grammar.derive_generator_output(new_tree))\n",
      "            else:\n                try:\n                    new_tree.set_children(grammar.derive_generator_output(new_tree))\n                except Exception as e:\n                    warnings.warn(str(e))\n", "R16-d"),
    M("repair-unfreezes-the-live-source", "src/fandango/constraints/comparison.py", "            source_copy = self._source.deepcopy(\n                copy_children=True, copy_params=False, copy_parent=False\n            )\n            source_copy.set_all_read_only(False)\n",
      "            source_copy = self._source\n            source_copy.set_all_read_only(False)\n", "R16-g"),
    M("guard-checks-the-replacements-flag", "src/fandango/language/tree.py", "        if (\n            current_path in path_to_replacement\n            and self.symbol == path_to_replacement[current_path].symbol\n            and not self.read_only\n        ):\n            new_subtree = path_to_replacement[current_path].deepcopy(\n", "        replacement = path_to_replacement.get(current_path)\n        if (\n            replacement is not None\n            and replacement.symbol == self.symbol\n            and not replacement.read_only\n        ):\n            new_subtree = replacement.deepcopy(\n", "R16-a"),
    M("regenerated-children-writable", "src/fandango/language/grammar/grammar.py", "        generated = self.generate(tree.nonterminal, tree.sources)\n        # Prevent children from being overwritten without executing generator\n        for child in generated.children:\n            child.set_all_read_only(True)\n        return generated.children\n",
      "        generated = self.generate(tree.nonterminal, tree.sources)\n        return generated.children\n", "R16-b"),
    M("regenerated-children-sealed-only-if-many", "src/fandango/language/grammar/grammar.py", "        for child in generated.children:\n            child.set_all_read_only(True)\n        return generated.children\n",
      "        if len(generated.children) > 1:\n            for child in generated.children:\n                child.set_all_read_only(True)\n        return generated.children\n", "R16-b"),
    M("guard-drops-readonly", _T, "            and self.symbol == path_to_replacement[current_path].symbol\n            and not self.read_only\n", "            and self.symbol == path_to_replacement[current_path].symbol\n", "R16-a"),
    M("seal-only-with-sender", _NT, "            for child in generated.children:\n                child.set_all_read_only(True)\n", "            if self.sender is None:\n                for child in generated.children:\n                    child.set_all_read_only(True)\n", "R16-b"),
    M("populate-sources-no-seal", _G, "            tree.sources = self.derive_sources(tree)\n            for child in tree.children:\n                child.set_all_read_only(True)\n            return", "            tree.sources = self.derive_sources(tree)\n            return", "R16-b"),
    M("misfit-falls-back-to-fuzz", _G, "        if tree is None:\n            raise FandangoParseError(\n                f\"Could not parse {string!r} (generated by {self.generators[symbol]}) into {symbol.format_as_spec()}\"\n            )",
      "        if tree is None:\n            LOGGER.warning(f\"Could not parse {string!r} into {symbol.format_as_spec()}\")\n            tree = self.fuzz(symbol)", "R16-c"),
    M("generate-parses-under-start", _G, "        tree = self.parse(string, symbol)\n        if tree is None:", "        tree = self.parse(string)\n        if tree is None:", "R16-c"),
    M("regen-only-for-children", _T, "            sources.append(new_param)\n            if new_param != param:\n                regen_children = True", "            sources.append(new_param)\n            if new_param != param:\n                regen_params = True", "R16-d"),
    M("regen-skipped-when-readonly", _T, "            else:\n                new_tree.set_children(grammar.derive_generator_output(new_tree))", "            elif not new_tree.read_only:\n                new_tree.set_children(grammar.derive_generator_output(new_tree))", "R16-d"),
    M("crossover-includes-readonly", _CX, "        nodes1 = parent1.find_all_nodes(symbol)\n", "        nodes1 = parent1.find_all_nodes(symbol, False)\n", "R16-e"),
    M("mutation-descendants-unfiltered", _MU, "        subtrees = [node_to_mutate] + list(\n            filter(\n                lambda x: (not x.read_only) and (x.symbol.is_non_terminal),\n                node_to_mutate.descendants(),\n            )\n        )",
      "        subtrees = [node_to_mutate] + list(\n            filter(\n                lambda x: x.symbol.is_non_terminal,\n                node_to_mutate.descendants(),\n            )\n        )", "R16-e"),
    M("find-all-nodes-default-false", _T, "    def find_all_nodes(\n        self, symbol: NonTerminal, exclude_read_only: bool = True\n    )", "    def find_all_nodes(\n        self, symbol: NonTerminal, exclude_read_only: bool = False\n    )", "R16-e"),
]
TWINS = [
    M("twin-children-of-the-generated-tree-taken-at-once", "src/fandango/language/grammar/grammar.py", "        generated = self.generate(tree.nonterminal, tree.sources)\n        # Prevent children from being overwritten without executing generator\n        for child in generated.children:\n            child.set_all_read_only(True)\n        return generated.children\n",
      "        generated_children = self.generate(tree.nonterminal, tree.sources).children\n        for child in generated_children:\n            child.set_all_read_only(True)\n        return generated_children\n", None),
    M("twin-regen-failure-reraised-with-context", _T, "            else:\n                new_tree.set_children(grammar.derive_generator_output(new_tree))\n",
      "            else:\n                try:\n                    new_tree.set_children(grammar.derive_generator_output(new_tree))\n                except Exception as e:\n                    raise type(e)(f\"{new_tree.symbol}: {e}\") from e\n", None),
    M("twin-repair-copy-renamed", "src/fandango/constraints/comparison.py", "source_copy", "copy_of_source", None, count=3),
    M("twin-guard-with-hoisted-lookup", "src/fandango/language/tree.py", "        if (\n            current_path in path_to_replacement\n            and self.symbol == path_to_replacement[current_path].symbol\n            and not self.read_only\n        ):\n            new_subtree = path_to_replacement[current_path].deepcopy(\n", "        replacement = path_to_replacement.get(current_path)\n        if (\n            replacement is not None\n            and replacement.symbol == self.symbol\n            and not self.read_only\n        ):\n            new_subtree = replacement.deepcopy(\n", None),
    M("twin-repair-skips-generator-targets", "src/fandango/constraints/comparison.py", "        symbol = self._target.symbol\n        assert isinstance(symbol, NonTerminal)\n",
      "        symbol = self._target.symbol\n        assert isinstance(symbol, NonTerminal)\n        if symbol in grammar.generators:\n            return []\n", None),
    M("twin-seal-loop-var", _NT, "            for child in generated.children:\n                child.set_all_read_only(True)\n", "            for gen_child in generated.children:\n                gen_child.set_all_read_only(True)\n", None),
]
