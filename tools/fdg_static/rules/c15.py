"""C15 - printing a spec and reading it back preserves its meaning (grouping, bounds, literals).

R15-a  printer precedence against the reader's grammar.  From FandangoParser.g4:
       alternative > concatenation > operator (postfix * + ? {}) > symbol, and only `symbol` may be
       the operand of a postfix operator.  An abstract interpretation of every Node.format_as_spec
       over string shapes {ATOM, POSTFIX, SEQ, ALT} yields the level each class prints at; a
       printer that appends a postfix operator to an operand must make sure the operand prints at
       level symbol for every class that can occupy the field (isinstance narrowing on the path is
       honoured), elements joined by ' ' must print at most at operator level, elements joined by
       ' | ' at most at concatenation level.
R15-b  printers are pure: no format_as_spec of a grammar node (transitively, through properties
       and helper methods of the node classes) reads module-level state that some function re-binds.
R15-c  literals are printed by repr and read by eval (inverse by construction).
R15-d  the reader's grammar still has the shape the argument relies on.
"""

from __future__ import annotations

import ast
from typing import Optional

from ..core import AnalysisError, ClassInfo, FuncInfo, attr_chain, call_name, norm, self_attr, short, walk_local
from ..engine import Engine
from ..report import Check
from .. import g4

NODES = "fandango.language.grammar.nodes"
ATOM, POSTFIX, SEQ, ALT = 0, 1, 2, 3
LEVEL_NAME = {ATOM: "symbol", POSTFIX: "operator", SEQ: "concatenation", ALT: "alternative"}
POSTFIX_TEXTS = {"*", "+", "?", "{}", "{,}"}


class ShapeInterp:
    def __init__(self, eng: Engine, chk: Check, node_base: ClassInfo) -> None:
        self.eng = eng
        self.chk = chk
        self.node_base = node_base
        self.concrete = [c for c in node_base.family() if "format_as_spec" in {m for cc in c.mro() for m in cc.methods} and not self._is_abstract(c)]
        self.level_cache: dict[str, int] = {}
        self.in_progress: set[str] = set()
        self.violations: list = []
        self.obligations = 0

    def _is_abstract(self, c: ClassInfo) -> bool:
        m = c.lookup("format_as_spec")
        if m is None:
            return True
        body = [s for s in m.node.body if not (isinstance(s, ast.Expr) and isinstance(s.value, ast.Constant))]  # type: ignore[attr-defined]
        return len(body) == 0 or (len(body) == 1 and isinstance(body[0], (ast.Pass, ast.Raise)))

    def class_level(self, c: ClassInfo) -> int:
        """Current approximation of the level class c prints at (fixpoint over `solve`)."""
        return self.level_cache.get(c.fq, ATOM)

    def solve(self) -> None:
        """Least fixpoint of the print levels (classes embed each other recursively), then one
        checking pass with the stable levels."""
        for _ in range(8):
            changed = False
            for c in self.concrete:
                m = c.lookup("format_as_spec")
                assert m is not None
                self.violations = []
                lv = self.func_level(m, c, {})
                if lv > self.level_cache.get(c.fq, ATOM):
                    self.level_cache[c.fq] = lv
                    changed = True
            if not changed:
                break
        self.violations = []
        self.obligations = 0

    # classes that may occupy a field typed `Node`
    def occupants(self, narrowed: Optional[set[str]] = None) -> list[ClassInfo]:
        return [c for c in self.concrete if narrowed is None or c.fq in narrowed]

    def func_level(self, fn: FuncInfo, selfcls: ClassInfo, narrow: dict[str, set[str]]) -> int:
        """max level over all return statements, honouring isinstance narrowing."""
        levels: list[int] = []

        def block(stmts: list[ast.stmt], nar: dict[str, set[str]], env: dict[str, ast.AST]) -> None:
            nar = dict(nar)
            env = dict(env)
            for st in stmts:
                if isinstance(st, ast.Return) and st.value is not None:
                    levels.append(self.expr_level(st.value, fn, selfcls, nar, env))
                elif isinstance(st, ast.Assign) and len(st.targets) == 1 and isinstance(st.targets[0], ast.Name):
                    env[st.targets[0].id] = (st.value, dict(nar))  # type: ignore[assignment]
                elif isinstance(st, ast.If):
                    pos, neg = self.narrowing(st.test, fn, selfcls, nar)
                    block(st.body, pos, env)
                    block(st.orelse, neg, env)
                    # early return in the body narrows the rest
                    if st.body and isinstance(st.body[-1], (ast.Return, ast.Raise)) and not st.orelse:
                        nar = neg
                    elif st.orelse and isinstance(st.orelse[-1], (ast.Return, ast.Raise)) and not (st.body and isinstance(st.body[-1], (ast.Return, ast.Raise))):
                        nar = pos
                elif isinstance(st, (ast.For, ast.While, ast.With, ast.Try)):
                    for sub in ast.iter_child_nodes(st):
                        if isinstance(sub, ast.stmt):
                            block([sub], nar, env)
                        elif isinstance(sub, ast.ExceptHandler):
                            block(sub.body, nar, env)

        block(fn.node.body, narrow, {})  # type: ignore[attr-defined]
        if not levels:
            raise AnalysisError(f"{fn.fq}: no return value to classify")
        return max(levels)

    def narrowing(self, test: ast.AST, fn: FuncInfo, selfcls: ClassInfo, nar: dict[str, set[str]]):
        pos, neg = dict(nar), dict(nar)
        t = test
        negate = False
        if isinstance(t, ast.UnaryOp) and isinstance(t.op, ast.Not):
            t, negate = t.operand, True
        if isinstance(t, ast.Call) and call_name(t) == "isinstance" and len(t.args) == 2:
            key = norm(t.args[0])
            cls_exprs = t.args[1].elts if isinstance(t.args[1], ast.Tuple) else [t.args[1]]
            mod = self.eng.ix.modules[fn.module]
            allowed: set[str] = set()
            for ce in cls_exprs:
                r = self.eng.ix.resolve_class_expr(mod, ce)
                if r is None:
                    return dict(nar), dict(nar)
                allowed |= {c.fq for c in r.family()}
            base = nar.get(key, {c.fq for c in self.concrete})
            p, n = base & allowed, base - allowed
            if negate:
                p, n = n, p
            pos[key], neg[key] = p, n
        elif isinstance(t, ast.Attribute) and t.attr == "is_controlflow":
            pass
        return pos, neg

    def parts(self, e: ast.AST) -> Optional[list]:
        """Flatten string concatenation / f-string into [('c', text) | ('v', expr)]."""
        if isinstance(e, ast.Constant) and isinstance(e.value, str):
            return [("c", e.value)]
        if isinstance(e, ast.JoinedStr):
            out = []
            for v in e.values:
                if isinstance(v, ast.Constant):
                    out.append(("c", str(v.value)))
                elif isinstance(v, ast.FormattedValue):
                    out.append(("v", v.value))
            return out
        if isinstance(e, ast.BinOp) and isinstance(e.op, ast.Add):
            l, r = self.parts(e.left), self.parts(e.right)
            if l is None:
                l = [("v", e.left)]
            if r is None:
                r = [("v", e.right)]
            return l + r
        return None

    def expr_level(self, e: ast.AST, fn: FuncInfo, selfcls: ClassInfo, nar: dict[str, set[str]], env: dict) -> int:
        if isinstance(e, ast.IfExp):
            return max(self.expr_level(e.body, fn, selfcls, nar, env), self.expr_level(e.orelse, fn, selfcls, nar, env))
        if isinstance(e, ast.Name) and e.id in env:
            v, nar_at_def = env[e.id]
            return self.expr_level(v, fn, selfcls, {**nar_at_def, **nar}, env)
        if isinstance(e, ast.Call):
            f = e.func
            if isinstance(f, ast.Attribute) and f.attr == "join" and isinstance(f.value, ast.Constant) and isinstance(f.value.value, str):
                sep = f.value.value
                elem_lv = self.join_elem_level(e.args[0], fn, selfcls, nar, env) if e.args else ATOM
                if sep.strip() == "|":
                    self.require(elem_lv <= SEQ, fn, e, f"an element joined by ' | ' may print at level {LEVEL_NAME[elem_lv]}", "alt-elem")
                    return ALT
                if sep == " ":
                    self.require(elem_lv <= POSTFIX, fn, e, f"an element joined by ' ' may print at level {LEVEL_NAME[elem_lv]} (needs parentheses)", "seq-elem")
                    return SEQ
                if sep == "":
                    return elem_lv
                return SEQ
            if isinstance(f, ast.Attribute) and f.attr == "format_as_spec":
                return self.operand_level(f.value, fn, selfcls, nar)
            if isinstance(f, ast.Name) and f.id in ("repr", "str"):
                return ATOM
            if isinstance(f, ast.Attribute) and isinstance(f.value, ast.Name) and f.value.id == "self":
                m = selfcls.lookup(f.attr)
                if m is not None:
                    return self.func_level(m, selfcls, nar)
            return ATOM
        ps = self.parts(e)
        if ps is not None:
            text = "".join(t for k, t in ps if k == "c")
            first, last = ps[0], ps[-1]
            if first[0] == "c" and last[0] == "c" and ((first[1].startswith("(") and last[1].endswith(")")) or (first[1].startswith("<") and last[1].endswith(">"))
                                                  or (first[1][:1] in "'\"[" or first[1][:2] in ("r'", 'r"', "b'", 'b"'))):
                # parenthesised / bracketed / quoted: inner parts may be anything up to ALT
                return ATOM
            if first[0] == "v" and text.replace(" ", "") in POSTFIX_TEXTS:
                op_lv = self.expr_level(first[1], fn, selfcls, nar, env)
                self.obligations += 1
                self.require(op_lv <= ATOM, fn, e,
                             f"postfix operator `{text}` is appended to an operand that may print at level {LEVEL_NAME[op_lv]} "
                             f"(classes: {self.offenders(first[1], fn, selfcls, nar, env)})", "postfix-operand")
                return POSTFIX
            # generic concatenation: level by the separators found in the constant text
            lv = ATOM
            for k, v in ps:
                if k == "v":
                    lv = max(lv, self.expr_level(v, fn, selfcls, nar, env))
            if " | " in text:
                return max(lv, ALT)
            if " " in text.strip():
                return max(lv, SEQ)
            return lv
        if isinstance(e, ast.Attribute) or isinstance(e, ast.Subscript):
            return ATOM
        return ATOM

    def join_elem_level(self, arg: ast.AST, fn: FuncInfo, selfcls: ClassInfo, nar, env) -> int:
        # map(lambda x: x.format_as_spec(), self.alternatives) / generator expression
        if isinstance(arg, ast.Call) and call_name(arg) == "map" and len(arg.args) == 2 and isinstance(arg.args[0], ast.Lambda):
            body = arg.args[0].body
            if isinstance(body, ast.Call) and isinstance(body.func, ast.Attribute) and body.func.attr == "format_as_spec":
                return self.operand_level(arg.args[1], fn, selfcls, nar, elem=True)
        if isinstance(arg, (ast.GeneratorExp, ast.ListComp)):
            elt = arg.elt
            if isinstance(elt, ast.Call) and isinstance(elt.func, ast.Attribute) and elt.func.attr == "format_as_spec":
                return self.operand_level(arg.generators[0].iter, fn, selfcls, nar, elem=True)
        return ATOM

    def operand_classes(self, recv: ast.AST, fn: FuncInfo, selfcls: ClassInfo, nar, elem: bool = False) -> Optional[list[ClassInfo]]:
        """Node classes that may occupy `recv` (None: not a grammar node, e.g. a Symbol)."""
        key = norm(recv)
        env = self.eng.env(fn)
        ty = env.elem_type_of(recv) if elem else env.type_of(recv)
        if not ty:
            a = self_attr(recv)
            if a is not None:
                ty = env.attr_type({selfcls.fq}, a, elem=elem)
        if not ty:
            return None
        fam = {c.fq for c in self.node_base.family()}
        if not (ty & fam):
            return None
        occ: list[ClassInfo] = []
        for fq in ty & fam:
            mod, nm = fq.split(":")
            c = self.eng.ix.modules[mod].classes[nm]
            occ += [x for x in c.family() if x in self.concrete]
        if key in nar:
            occ = [c for c in occ if c.fq in nar[key]]
        return occ

    def operand_level(self, recv: ast.AST, fn: FuncInfo, selfcls: ClassInfo, nar, elem: bool = False) -> int:
        occ = self.operand_classes(recv, fn, selfcls, nar, elem)
        if occ is None:
            return ATOM  # symbols print as one token (checked by R15-c)
        if not occ:
            return ATOM
        return max(self.class_level(c) for c in occ)

    def offenders(self, e: ast.AST, fn, selfcls, nar, env) -> str:
        if isinstance(e, ast.Name) and e.id in env:
            v, nd = env[e.id]
            return self.offenders(v, fn, selfcls, {**nd, **nar}, env)
        if isinstance(e, ast.Call) and isinstance(e.func, ast.Attribute) and e.func.attr == "format_as_spec":
            occ = self.operand_classes(e.func.value, fn, selfcls, nar) or []
            return ", ".join(sorted(f"{c.name}->{LEVEL_NAME[self.class_level(c)]}" for c in occ if self.class_level(c) > ATOM))
        return "?"

    def require(self, ok: bool, fn: FuncInfo, e: ast.AST, what: str, kind: str) -> None:
        if ok:
            return
        self.violations.append((fn, e, what, kind))


def run(chk: Check, eng: Engine) -> None:
    chk.rule("R15-a", "a printer that appends a postfix operator / joins elements guarantees the operand prints at a level the reader's grammar accepts there", floor=8)
    chk.rule("R15-b", "no format_as_spec of a grammar node reads re-bindable module-level state", floor=8)
    chk.rule("R15-c", "non-regex literals are printed with repr() and read with eval()", floor=2)
    chk.rule("R15-d", "the reader's grammar has the precedence shape the argument relies on", floor=4)
    chk.not_decided += ["regex quoting branches of Terminal.format_as_spec", "party annotations", "that a derivable constraint text is read back with the same grouping (R15-f decides derivability only)"]
    chk.rule("R15-f", "what the printers of searches and constraints emit - for every class the reader can put into each field - is derivable from the rule the reader "
             "uses for that construct (`expression` for a search, `constraint` for each line FandangoSpec.__repr__ writes)", floor=15)
    from .c15_syntax import printer_reader_rule
    printer_reader_rule(chk, eng, "R15-f")
    chk.rule("R15-g", "a printer of expression text puts the <symbol> references back through the placeholder map stored next to the text", floor=3)
    placeholder_map_rule(chk, eng, "R15-g")
    chk.rule("R15-e", "no printer (format_as_spec and what it calls) is memoised by a decorator whose key - self by __eq__/__hash__, the arguments - "
             "leaves out something the printer reads", floor=1)
    from .common_memo import decorated_memo_rule
    decorated_memo_rule(chk, eng, "R15-e", [f.fq for f in eng.ix.all_functions if f.name in ("format_as_spec", "_operand_as_spec")], "printed spec text")

    # ---- R15-d ---------------------------------------------------------------
    pg = g4.load(eng, "Parser")
    lg = g4.load(eng, "Lexer")

    def only_rule_refs(rule: str) -> set[str]:
        return {e.value for e in pg.elements(rule) if e.kind == "rule"}

    exp = {"alternative": {"concatenation"}, "concatenation": {"operator"}}
    for r, want in exp.items():
        if r not in pg.rules:
            raise AnalysisError(f"FandangoParser.g4: rule {r} missing")
        got = only_rule_refs(r)
        if got == want:
            chk.ok("R15-d", f"language/FandangoParser.g4:{r}", pg.rules[r].line, f"{r} is built from {sorted(want)} only")
        else:
            raise AnalysisError(f"FandangoParser.g4: rule {r} now refers to {sorted(got)}; the precedence argument of R15-a must be re-derived")
    post_rules = [e.value for a in pg.rules["operator"].alts for e in a if e.kind == "rule" and e.value != "symbol"]
    for pr in post_rules:
        first = pg.rules[pr].alts[0][0]
        if all(a and a[0].kind == "rule" and a[0].value == "symbol" for a in pg.rules[pr].alts):
            toks = sorted({lg.token_literal(e.value) or e.value for a in pg.rules[pr].alts for e in a if e.kind == "token"})
            chk.ok("R15-d", f"language/FandangoParser.g4:{pr}", pg.rules[pr].line, f"postfix rule {pr}: operand is `symbol`, operator tokens {toks}")
        else:
            raise AnalysisError(f"FandangoParser.g4: postfix rule {pr} no longer takes `symbol` as operand (first element {first})")
    sym_alts = pg.rules["symbol"].alts
    paren = [a for a in sym_alts if any(e.kind == "rule" and e.value == "alternative" for e in a)]
    if paren and paren[0][0].kind == "token" and (lg.token_literal(paren[0][0].value) == "("):
        chk.ok("R15-d", "language/FandangoParser.g4:symbol", pg.rules["symbol"].line, "a parenthesised alternative is a symbol")
    else:
        raise AnalysisError("FandangoParser.g4: symbol no longer contains '(' alternative ')'")

    # ---- R15-a ---------------------------------------------------------------
    node_base = eng.cls(f"{NODES}.node", "Node")
    si = ShapeInterp(eng, chk, node_base)
    if len(si.concrete) < 8:
        raise AnalysisError(f"only {len(si.concrete)} concrete grammar node classes found")
    si.solve()
    for c in sorted(si.concrete, key=lambda c: c.fq):
        m = c.lookup("format_as_spec")
        assert m is not None
        eng.consult(m.module)
        before = len(si.violations)
        lv = si.func_level(m, c, {})
        if len(si.violations) == before:
            chk.ok("R15-a", m.fq, m.line, f"{c.name} prints at level {LEVEL_NAME[lv]}; every operand/element it embeds prints at an accepted level")
    seen = set()
    for fn, e, what, kind in si.violations:
        key = (fn.fq, kind, short(e, 60))
        if key in seen:
            continue
        seen.add(key)
        chk.bad("R15-a", eng.relfile(fn), getattr(e, "lineno", fn.line), fn.fq, f"`{short(e, 80)}`: {what}",
                "the printed text groups differently when read back: a postfix operator binds to the last symbol only, so ('a' 'b')* "
                "printed as 'a' 'b'* denotes another language",
                keyparts=f"{kind}|{fn.qualname}")

    # ---- R15-b ---------------------------------------------------------------
    # module-level names re-bound from function bodies (global X / module.X = ...)
    rebound: dict[tuple[str, str], str] = {}
    for f in eng.ix.all_functions:
        globs = {n for st in walk_local(f.node) if isinstance(st, ast.Global) for n in st.names}
        mod = eng.ix.modules[f.module]
        for n in walk_local(f.node):
            if isinstance(n, (ast.Assign, ast.AugAssign, ast.AnnAssign)):
                for t in (n.targets if isinstance(n, ast.Assign) else [n.target]):
                    if isinstance(t, ast.Name) and t.id in globs:
                        rebound[(f.module, t.id)] = f.fq
                    elif isinstance(t, ast.Attribute):
                        ch = attr_chain(t)
                        if ch and len(ch) >= 2:
                            r = eng.ix.resolve_dotted(mod, t.value)
                            from ..core import ModuleInfo

                            if isinstance(r, ModuleInfo):
                                rebound[(r.name, t.attr)] = f.fq
    n_clean = 0
    for c in sorted(si.concrete, key=lambda c: c.fq):
        m = c.lookup("format_as_spec")
        assert m is not None
        # closure through self.<method/property>
        seen_f: set[str] = set()
        todo = [m]
        bad: list[tuple[FuncInfo, ast.AST, str, str]] = []
        while todo:
            f = todo.pop()
            if f.fq in seen_f:
                continue
            seen_f.add(f.fq)
            mod = eng.ix.modules[f.module]
            for n in walk_local(f.node):
                a = self_attr(n) if isinstance(n, ast.Attribute) else None
                if a is not None:
                    g = c.lookup(a)
                    if g is not None:
                        todo.append(g)
                if isinstance(n, ast.Attribute) and isinstance(n.ctx, ast.Load):
                    r = eng.ix.resolve_dotted(mod, n.value)
                    from ..core import ModuleInfo

                    if isinstance(r, ModuleInfo) and (r.name, n.attr) in rebound:
                        bad.append((f, n, f"{r.name}.{n.attr}", rebound[(r.name, n.attr)]))
                elif isinstance(n, ast.Name) and isinstance(n.ctx, ast.Load):
                    if (f.module, n.id) in rebound and n.id not in f.params():
                        bad.append((f, n, f"{f.module}.{n.id}", rebound[(f.module, n.id)]))
                    elif n.id in mod.imports:
                        base, attr = mod.imports[n.id]
                        if attr is not None and (base, attr) in rebound:
                            bad.append((f, n, f"{base}.{attr}", rebound[(base, attr)]))
        if not bad:
            n_clean += 1
            chk.ok("R15-b", m.fq, m.line, f"{c.name}.format_as_spec (closure of {len(seen_f)} function(s)) reads no re-bindable module state")
        for f, n, what, writer in bad:
            chk.bad("R15-b", eng.relfile(f), n.lineno, m.fq, f"{c.name}.format_as_spec reads `{what}` (via {f.qualname}), which {writer.split(':')[1]} re-binds",
                    "the printed text depends on process-global state: an open bound {n,} is printed as {n,<current cap>} - a different language, "
                    "and a different text after the adaptive tuner raised the cap",
                    keyparts=f"impure|{c.name}|{what}")

    # ---- R15-c ---------------------------------------------------------------
    term = eng.cls("fandango.language.symbols.terminal", "Terminal")
    fas = eng.method(term, "format_as_spec", inherited=False)
    top_returns = [s for s in fas.node.body if isinstance(s, ast.Return)]  # type: ignore[attr-defined]
    if top_returns and isinstance(top_returns[-1].value, ast.Call) and call_name(top_returns[-1].value) == "repr" \
            and self_attr(top_returns[-1].value.args[0]) in ("_value", "value"):
        chk.ok("R15-c", fas.fq, top_returns[-1].lineno, "non-regex literal printed as repr(value)")
    else:
        chk.bad("R15-c", eng.relfile(fas), fas.line, fas.fq, "the non-regex branch does not return repr(self._value)",
                "quotes, backslashes, non-ASCII and non-printable characters are not escaped the way the reader (eval) undoes", keyparts="not-repr")
    from .c08 import literal_decoding

    literal_decoding(chk, eng, "R15-c")
    tv = eng.cls("fandango.language.tree_value", "TreeValue")
    rp = eng.method(tv, "__repr__", inherited=False)
    rets = [n for n in walk_local(rp.node) if isinstance(n, ast.Return)]
    if any(isinstance(r.value, ast.Call) and call_name(r.value) == "repr" and self_attr(r.value.args[0]) == "_value" for r in rets):
        chk.ok("R15-c", rp.fq, rp.line, "TreeValue.__repr__ delegates to repr() of the raw str/bytes payload")
    else:
        chk.bad("R15-c", eng.relfile(rp), rp.line, rp.fq, "TreeValue.__repr__ does not print the raw payload with repr()", "literal printing is no longer by repr", keyparts="tv-repr")

    # ---- R15-d ---------------------------------------------------------------
    # regex source is printed verbatim inside a raw literal; wherever the printer rewrites a character of it, the rewrite must see the
    # whole run of backslashes in front of that character (a bounded look at the neighbourhood cannot tell `\'` from `\\'`)
    chk.rule("R15-d", "a character of regex source is rewritten only by an escape-aware substitution: re.sub over `(\\*)<char>` with the replacement "
             "computed from the length of the backslash run - never str.replace or a pattern that sees a bounded number of backslashes", floor=1)
    import re._parser as _sre  # regex syntax trees of the *pattern literals* in the source; nothing of the repository is executed

    regex_branch = [n for n in fas.node.body if isinstance(n, ast.If) and "is_regex" in norm(n.test)]  # type: ignore[attr-defined]
    if not regex_branch:
        raise AnalysisError("Terminal.format_as_spec: the `if self.is_regex` branch was not found")
    n_d = 0
    for n in ast.walk(regex_branch[0]):
        if not isinstance(n, ast.Call):
            continue
        # bytes branch: repr() + un-doubling of backslashes is the documented inverse pair (every backslash is doubled by repr)
        if isinstance(n.func, ast.Attribute) and n.func.attr == "replace" and len(n.args) == 2 and all(isinstance(a, ast.Constant) for a in n.args):
            a0, a1 = n.args[0].value, n.args[1].value  # type: ignore[union-attr]
            # (un-doubling the backslashes of repr() output with str.replace is context-free as well: repr() also escapes the quote it has to,
            #  and after the un-doubling `\\\'` (backslash, escaped quote) reads `\\'` - the quote ends the raw literal.  No exemption.)
            n_d += 1
            chk.bad("R15-d", eng.relfile(fas), n.lineno, fas.fq, f"`{short(n, 70)}` rewrites regex source with a context-free str.replace",
                    "a character that is already escaped (or follows an escaped backslash) is rewritten the same way as a bare one: the printed regex denotes another language",
                    keyparts="regex-str-replace|" + repr(a0))
            continue
        if norm(n.func) in ("re.sub", "regex.sub") and n.args and isinstance(n.args[0], ast.Constant) and isinstance(n.args[0].value, str):
            n_d += 1
            pat = n.args[0].value
            try:
                tree = list(_sre.parse(pat))
            except Exception as e:  # pragma: no cover
                raise AnalysisError(f"Terminal.format_as_spec: cannot read the pattern {pat!r}: {e}")
            # flatten one capturing group level
            flat = []
            for op, av in tree:
                if str(op) == "SUBPATTERN":
                    flat += [(o, a, True) for o, a in av[3]]
                else:
                    flat.append((op, av, False))
            sees_run = False
            for i, (op, av, _g) in enumerate(flat[:-1]):
                nxt = flat[i + 1]
                if str(op) == "MAX_REPEAT" and av[0] == 0 and str(av[1]) == "MAXREPEAT" and [(str(o), a) for o, a in av[2]] == [("LITERAL", 92)] and str(nxt[0]) == "LITERAL":
                    sees_run = True

            def backslash_run(items) -> bool:
                """an unbounded repetition whose body consists of backslashes only, somewhere in the pattern (groups and branches included)"""
                for op, av in items:
                    o = str(op)
                    if o == "MAX_REPEAT" and str(av[1]) == "MAXREPEAT":
                        inner = list(av[2])
                        while len(inner) == 1 and str(inner[0][0]) == "SUBPATTERN":
                            inner = list(inner[0][1][3])
                        if inner and all(str(io) == "LITERAL" and ia == 92 for io, ia in inner):
                            return True
                    if o == "SUBPATTERN" and backslash_run(av[3]):
                        return True
                    if o == "BRANCH" and any(backslash_run(b) for b in av[1]):
                        return True
                    if o in ("MAX_REPEAT", "MIN_REPEAT") and backslash_run(av[2]):
                        return True
                return False

            sees_run = sees_run or backslash_run(tree)
            repl = n.args[1] if len(n.args) > 1 else None
            repl_body: Optional[ast.AST] = repl if isinstance(repl, ast.Lambda) else None
            if isinstance(repl, ast.Name):
                repl_body = next((d for d in ast.walk(fas.node) if isinstance(d, ast.FunctionDef) and d.name == repl.id), None)
            parity = repl_body is not None and any(isinstance(x, ast.BinOp) and isinstance(x.op, (ast.FloorDiv, ast.Mod)) for x in ast.walk(repl_body))
            if sees_run and parity:
                chk.ok("R15-d", fas.fq, n.lineno, f"`re.sub({pat!r}, ...)` sees the whole backslash run and computes the replacement from its length")
            else:
                chk.bad("R15-d", eng.relfile(fas), n.lineno, fas.fq, f"`re.sub({pat!r}, ...)` " + ("does not capture the whole run of backslashes before the rewritten character" if not sees_run else
                                                                                                   "does not compute the replacement from the parity of the backslash run"),
                        "`\\'` (escaped backslash, then a quote) and `\'` (escaped quote) cannot be told apart: one of them is printed as a different regex",
                        keyparts="regex-sub-not-parity-aware")
    if n_d == 0:
        raise AnalysisError("Terminal.format_as_spec: the regex branch rewrites nothing any more (R15-d has lost its instances)")


def placeholder_map_rule(chk: Check, eng: Engine, rule: str) -> None:
    """R15-g.  Expression text is stored with fresh variables in place of the `<symbol>` references, next to a map from those variables to what they
    stand for (`searches`, `nonterminals`).  A printer (`format_as_spec` / `__str__`) that emits such text has to put the references back
    through that map; one that does not read the map prints internal variable names or whatever it substitutes for them."""
    MAPS = ("searches", "nonterminals")
    n = 0
    for mod in eng.ix.modules.values():
        if not mod.name.startswith("fandango."):
            continue
        for c in mod.classes.values():
            inits = [k.methods["__init__"] for k in c.mro() if "__init__" in k.methods]
            str_fields: set[str] = set()
            maps: set[str] = set()
            for init in inits:
                ann = {a.arg: norm(a.annotation) for a in init.node.args.args + init.node.args.kwonlyargs if a.annotation is not None}  # type: ignore[attr-defined]
                for st in ast.walk(init.node):
                    if isinstance(st, (ast.Assign, ast.AnnAssign)):
                        tg = st.targets[0] if isinstance(st, ast.Assign) else st.target
                        f = self_attr(tg)
                        if f is None or st.value is None:
                            continue
                        srcs = [x.id for x in ast.walk(st.value) if isinstance(x, ast.Name)]
                        if f in MAPS:
                            maps.add(f)
                        elif isinstance(st.value, ast.Name) and ann.get(st.value.id) == "str":
                            str_fields.add(f)
            if not maps or not str_fields:
                continue
            for pname in ("format_as_spec", "__str__"):
                m = c.methods.get(pname)
                if m is None:
                    continue
                reads = {self_attr(x) for x in walk_local(m.node) if isinstance(x, ast.Attribute) and isinstance(x.ctx, ast.Load)}
                text = sorted(reads & str_fields)
                if not text:
                    continue
                n += 1
                if reads & maps:
                    chk.ok(rule, m.fq, m.line, f"{c.name}.{pname} prints self.{text[0]} and substitutes through self.{sorted(reads & maps)[0]}")
                else:
                    chk.bad(rule, eng.relfile(m), m.line, m.fq, f"{c.name}.{pname} prints `self.{text[0]}` (text with internal variables) without consulting `self.{sorted(maps)[0]}`",
                            "the symbol references of the expression are not put back: the printed spec shows internal names or a placeholder such as `...`, and reads back as a different program",
                            keyparts=f"placeholder-map-unused|{c.name}|{pname}")
    if n < 3:
        raise AnalysisError(f"only {n} printers of placeholder text found")


# ------------------------------------------------------------------ self-test variants
from ..mutants import M  # noqa: E402

_R = "src/fandango/language/grammar/nodes/repetition.py"
_A = "src/fandango/language/grammar/nodes/alternative.py"
_TS = "src/fandango/language/symbols/terminal.py"
MUTANTS = [
    M("generator-parameters-elided", "src/fandango/language/grammar/literal_generator.py", "        s = str(self.call)\n        for identifier, nonterminal in self.nonterminals.items():\n            s = s.replace(identifier, nonterminal.format_as_spec())\n        return s\n",
      "        import re\n        return re.sub(r\"___[0-9a-zA-Z_]+___\", r\"...\", str(self.call))\n", "R15-g"),
    M("quantifier-prints-plain-selection", "src/fandango/constraints/forall.py", "            if not search.startswith(\"*\"):\n                search = \"*\" + search\n", "", "R15-f"),
    M("length-of-star-in-bars", "src/fandango/language/search.py", "        if value.startswith(\"*\"):\n            return f\"len({value})\"\n", "", "R15-f"),
    M("soft-value-under-where", "src/fandango/language/parse/spec.py", "            (\"\" if isinstance(constraint, SoftValue) else \"where \")\n            + constraint.format_as_spec()\n", "            \"where \" + constraint.format_as_spec()\n", "R15-f"),
    M("pair-slice-appended-to-the-list", "src/fandango/language/search.py", "                else:\n                    slice_repr += repr(items)\n", "                else:\n                    slice_reprs += repr(items)\n", "R15-f"),
    M("exists-prints-keyword-form-in-brackets", "src/fandango/constraints/exists.py", "            return f\"any({self.statement.format_as_spec()} for {bound} in {search})\"\n", "            return f\"any[{self.statement.format_as_spec()} for {bound} in {search}]\"\n", "R15-f"),
    M("terminal-printer-memoised-by-value", "src/fandango/language/symbols/terminal.py", "    def format_as_spec(self) -> str:\n        if self.is_regex:\n", "    @lru_cache(maxsize=4096)\n    def format_as_spec(self) -> str:\n        if self.is_regex:\n", "R15-e",
      more=(("from io import UnsupportedOperation\n", "from functools import lru_cache\nfrom io import UnsupportedOperation\n"),)),
    M("quote-escape-context-free", _TS, "            symbol = re.sub(\n                r\"(\\\\*)'\",\n                lambda m: m.group(1)[: len(m.group(1)) // 2 * 2] + r\"\\x27\",\n                str(self._value),\n            )\n",
      "            symbol = str(self._value).replace(\"'\", r\"\\x27\")\n", "R15-d"),
    M("quote-escape-sees-one-backslash", _TS, "                r\"(\\\\*)'\",\n                lambda m: m.group(1)[: len(m.group(1)) // 2 * 2] + r\"\\x27\",\n",
      "                r\"\\\\?'\",\n                r\"\\\\x27\",\n", "R15-d"),
    M("star-unparenthesised", _R, "        return self._operand_as_spec() + \"*\"\n", "        return self.node.format_as_spec() + \"*\"\n", "R15-a"),
    M("operand-helper-forgets-repetition", _R, "        if isinstance(self.node, (Concatenation, Repetition)):\n            return f\"({spec})\"", "        if isinstance(self.node, Concatenation):\n            return f\"({spec})\"", "R15-a"),
    M("alternative-drops-parens", _A, "        return (\n            \"(\" + \" | \".join(map(lambda x: x.format_as_spec(), self.alternatives)) + \")\"\n        )",
      "        return \" | \".join(map(lambda x: x.format_as_spec(), self.alternatives))", "R15-a"),
    M("open-bound-through-max", _R, "        if self._max is None:\n            # open-ended: print the bound as written, not the current process-wide cap\n            return f\"{self._operand_as_spec()}{{{self.min},}}\"\n",
      "        if self._max is None:\n            return f\"{self._operand_as_spec()}{{{self.min},{self.max}}}\"\n", "R15-b"),
    M("literal-str-instead-of-repr", _TS, "        # Not a regex\n        return repr(self._value)", "        # Not a regex\n        return \"'\" + str(self._value) + \"'\"", "R15-c"),
]
TWINS = [
    M("twin-item-base-unparenthesised-is-still-an-expression", "src/fandango/language/search.py", "        return f\"{_base_as_spec(self.base)}[{', '.join(slice_reprs)}]\"\n", "        return f\"{self.base.format_as_spec()}[{', '.join(slice_reprs)}]\"\n", None),
    M("twin-length-printer-conditional-expression", "src/fandango/language/search.py", "        value = self.value.format_as_spec()\n        if value.startswith(\"*\"):\n            return f\"len({value})\"\n        return f\"|{value}|\"\n",
      "        value = self.value.format_as_spec()\n        return f\"len({value})\" if value.startswith(\"*\") else \"|\" + value + \"|\"\n", None),
    M("twin-quantifier-list-comprehension-form", "src/fandango/constraints/forall.py", "            return f\"all({self.statement.format_as_spec()} for {bound} in {search})\"\n", "            return f\"all([{self.statement.format_as_spec()} for {bound} in {search}])\"\n", None),
    M("twin-memoised-type-test", "src/fandango/language/symbols/symbol.py", "    def is_type(self, type_: TreeValueType) -> bool:\n", "    @functools.lru_cache(maxsize=None)\n    def is_type(self, type_: TreeValueType) -> bool:\n", None,
      more=(("import abc\nimport enum\n", "import abc\nimport enum\nimport functools\n"),)),
    M("twin-quote-pattern-not-raw", _TS, "                r\"(\\\\*)'\",\n", "                \"(\\\\\\\\*)'\",\n", None),
    M("twin-fstring-to-concat", _R, "        return self._operand_as_spec() + \"+\"\n", "        return f\"{self._operand_as_spec()}+\"\n", None),
    M("twin-helper-else", _R, "        if isinstance(self.node, (Concatenation, Repetition)):\n            return f\"({spec})\"\n        return spec", "        if isinstance(self.node, (Concatenation, Repetition)):\n            return f\"({spec})\"\n        else:\n            return spec", None),
]
