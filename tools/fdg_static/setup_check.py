#!/venv/bin/python -S -I
"""MANIFEST.setup_cmd: byte-compile the framework and verify that it can index the working tree."""

import compileall
import os
import sys

HERE = os.path.dirname(os.path.abspath(__file__))
sys.path.insert(0, os.path.dirname(HERE))


def main() -> int:
    if sys.version_info < (3, 12):
        print("ANALYSIS-ERROR: the checks need Python >= 3.12 to parse the repository")
        return 2
    ok = compileall.compile_dir(HERE, quiet=1, force=False)
    import importlib

    n = 0
    for f in sorted(os.listdir(os.path.join(HERE, "rules"))):
        if f.startswith("c") and f.endswith(".py") and f[1:3].isdigit():
            importlib.import_module(f"fdg_static.rules.{f[:-3]}")
            n += 1
    from fdg_static.core import SourceIndex

    ix = SourceIndex(os.environ.get("FDG_REPO", "/repo"))
    print(f"fdg_static: {n} rule modules importable; indexed {len(ix.modules)} modules, {len(ix.all_functions)} functions")
    os.makedirs(os.path.join(os.path.dirname(os.path.dirname(HERE)), "evidence"), exist_ok=True)
    return 0 if ok else 2


if __name__ == "__main__":
    sys.exit(main())
