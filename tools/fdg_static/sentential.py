"""Recogniser for sentential forms of an ANTLR parser grammar (as read by g4.py).

Used to decide, without running any parser, whether the *template* a printer emits - literal tokens plus holes that stand for whole
sub-phrases - can be derived from the rule the reader uses for that construct.  The grammar is converted to plain BNF (groups and the
quantifiers ? * + become fresh nonterminals); the recogniser is Earley's algorithm with the usual treatment of nullable symbols, extended so
that an input symbol may itself be a nonterminal N: it is scanned by any item that expects N.

Terminals are compared by their text where the lexer defines the token by one literal (`WHERE` = 'where', `OR_OP` = '|'), by token name
otherwise (NAME, NUMBER, STRING, NEWLINE ...).
"""

from __future__ import annotations

import re
from typing import Iterable, Optional

from . import g4
from .core import AnalysisError

Sym = tuple[str, str]  # ("T", text or token name) | ("N", rule name)


class CFG:
    def __init__(self, parser: g4.Grammar, lexer: g4.Grammar) -> None:
        self.parser = parser
        self.lexer = lexer
        self.prods: dict[str, list[tuple[Sym, ...]]] = {}
        self._fresh = 0
        self.literals: set[str] = set()
        for name in parser.order:
            r = parser.rules[name]
            if r.is_lexer:
                continue
            self.prods[name] = [self._seq(alt) for alt in r.alts]
        self.nullable = self._nullable()
        # "@expr" stands for the text of an arbitrary Python expression: it may occupy the place of every rule of the expression chain,
        # i.e. of every rule that derives `atom` through unit productions, and of the constraint-level `expr`
        chain = {"atom"}
        grew = True
        while grew:
            grew = False
            for n, alts in self.prods.items():
                if n not in chain and any(len(a) == 1 and a[0][0] == "N" and a[0][1] in chain for a in alts):
                    chain.add(n)
                    grew = True
        self.classes: dict[str, set[str]] = {"@expr": {c for c in chain if not c.startswith("%")} | {"expr"}}

    # ------------------------------------------------------------------ construction
    def _terminal(self, e: g4.Elem) -> Sym:
        if e.kind == "lit":
            text = e.value[1:-1].replace("\\'", "'").replace("\\\\", "\\")
        else:
            text = self.lexer.token_literal(e.value) or e.value
        self.literals.add(text)
        return ("T", text)

    def _new(self, alts: list[tuple[Sym, ...]]) -> Sym:
        self._fresh += 1
        name = f"%{self._fresh}"
        self.prods[name] = alts
        return ("N", name)

    def _elem(self, e: g4.Elem) -> Sym:
        if e.kind == "rule":
            base: Sym = ("N", e.value)
        elif e.kind in ("lit", "token"):
            base = self._terminal(e)
        elif e.kind == "group":
            base = self._new([self._seq(a) for a in e.alts])
        else:
            raise AnalysisError(f"{self.parser.path}: element kind {e.kind} not expected in a parser rule")
        if e.quant == "?":
            return self._new([(base,), ()])
        if e.quant == "*":
            star = self._new([])
            self.prods[star[1]] = [(base, star), ()]
            return star
        if e.quant == "+":
            star = self._new([])
            self.prods[star[1]] = [(base, star), ()]
            return self._new([(base, star)])
        return base

    def _seq(self, alt: list[g4.Elem]) -> tuple[Sym, ...]:
        return tuple(self._elem(e) for e in alt)

    def _nullable(self) -> set[str]:
        nul: set[str] = set()
        changed = True
        while changed:
            changed = False
            for n, alts in self.prods.items():
                if n not in nul and any(all(k == "N" and v in nul for k, v in a) for a in alts):
                    nul.add(n)
                    changed = True
        return nul

    # ------------------------------------------------------------------ lexing of literal template text
    def lex(self, text: str) -> list[Sym]:
        """Tokens of a piece of literal printer text: keywords / operators by longest match against the grammar's literals, names, numbers."""
        ops = sorted((l for l in self.literals if l and not l[0].isalnum() and l[0] != "_"), key=len, reverse=True)
        out: list[Sym] = []
        i = 0
        while i < len(text):
            c = text[i]
            if c in " \t":
                i += 1
                continue
            if c == "\n":
                out.append(("T", "NEWLINE"))
                i += 1
                continue
            m = re.match(r"[A-Za-z_]\w*", text[i:])
            if m:
                w = m.group(0)
                out.append(("T", w if w in self.literals else "NAME"))
                i += len(w)
                continue
            m = re.match(r"\d+", text[i:])
            if m:
                out.append(("T", "NUMBER"))
                i += len(m.group(0))
                continue
            for op in ops:
                if text.startswith(op, i):
                    out.append(("T", op))
                    i += len(op)
                    break
            else:
                raise AnalysisError(f"printer text {text!r}: character {c!r} is no token of the reader's grammar")
        return out

    # ------------------------------------------------------------------ recognition
    def derives(self, start: str, form: Iterable[Sym]) -> bool:
        """Is the sentential form derivable from `start`?"""
        inp = list(form)
        n = len(inp)
        if start not in self.prods:
            raise AnalysisError(f"rule {start} is not in the grammar")
        # item: (lhs, alt index, dot, origin)
        chart: list[set[tuple[str, int, int, int]]] = [set() for _ in range(n + 1)]
        order: list[list[tuple[str, int, int, int]]] = [[] for _ in range(n + 1)]

        def add(k: int, it: tuple[str, int, int, int]) -> None:
            if it not in chart[k]:
                chart[k].add(it)
                order[k].append(it)

        for ai in range(len(self.prods[start])):
            add(0, (start, ai, 0, 0))
        for k in range(n + 1):
            idx = 0
            while idx < len(order[k]):
                lhs, ai, dot, org = order[k][idx]
                idx += 1
                rhs = self.prods[lhs][ai]
                if dot < len(rhs):
                    kind, val = rhs[dot]
                    if kind == "N":
                        for bi in range(len(self.prods.get(val, []))):
                            add(k, (val, bi, 0, k))
                        if val in self.nullable:
                            add(k, (lhs, ai, dot + 1, org))
                    if k < n and (inp[k] == (kind, val) or (kind == "N" and inp[k][0] == "N" and val in self.classes.get(inp[k][1], ()))):
                        add(k + 1, (lhs, ai, dot + 1, org))
                else:
                    for plhs, pai, pdot, porg in list(chart[org]):
                        prhs = self.prods[plhs][pai]
                        if pdot < len(prhs) and prhs[pdot] == ("N", lhs):
                            add(k, (plhs, pai, pdot + 1, porg))
        return any(lhs == start and dot == len(self.prods[lhs][ai]) and org == 0 for lhs, ai, dot, org in chart[n])


def show(form: Iterable[Sym]) -> str:
    return " ".join(v if k == "T" else f"<{v}>" for k, v in form)


_CACHE: dict[str, CFG] = {}


def load(eng) -> CFG:
    key = eng.repo + "|" + str(id(eng))
    if key not in _CACHE:
        _CACHE[key] = CFG(g4.load(eng, "Parser"), g4.load(eng, "Lexer"))
    return _CACHE[key]


def self_check(cfg: CFG) -> None:
    """The recogniser must accept / reject a few forms whose status is known by reading the grammar."""
    want = [
        ("selector_length", "< NAME >", True),
        ("selector_length", "| < NAME > . < NAME > |", True),
        ("selector_length", "len ( * < NAME > )", True),
        ("selector_length", "| * < NAME > |", False),
        ("star_selection", "< NAME >", False),
        ("dot_selection", "N:dot_selection .. N:selection", True),
        ("constraint", "where N:@expr == N:@expr NEWLINE", True),
        ("constraint", "where ( N:@expr == N:@expr and N:@expr ) NEWLINE", True),
        ("constraint", "where minimizing N:@expr NEWLINE", False),
        ("constraint", "minimizing N:@expr NEWLINE", True),
    ]
    for start, text, expect in want:
        form = [("N", t[2:]) if t.startswith("N:") else ("T", t) for t in text.split()]
        if cfg.derives(start, form) != expect:
            raise AnalysisError(f"sentential-form recogniser: `{text}` from {start} should be {'derivable' if expect else 'rejected'}")
