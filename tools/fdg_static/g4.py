"""Reader for the two ANTLR grammars (language/FandangoParser.g4, FandangoLexer.g4).

Gives, for every parser rule, its alternatives as element lists
  ('rule', name) | ('token', NAME) | ('lit', "'text'")  with a multiplicity suffix kept in `quant`
and, for the lexer, the literal of every token that is defined by a single quoted string.
The tokenizer is quote-aware ('//' inside a literal is not a comment).
"""

from __future__ import annotations

import re
from dataclasses import dataclass, field
from typing import Optional

from .core import AnalysisError


def _tokenize(text: str) -> list[tuple[str, str, int]]:
    toks: list[tuple[str, str, int]] = []
    i, n, line = 0, len(text), 1
    while i < n:
        c = text[i]
        if c == "\n":
            line += 1
            i += 1
            continue
        if c.isspace():
            i += 1
            continue
        if text.startswith("//", i):
            j = text.find("\n", i)
            i = n if j < 0 else j
            continue
        if text.startswith("/*", i):
            j = text.find("*/", i + 2)
            seg = text[i: (n if j < 0 else j + 2)]
            line += seg.count("\n")
            i = n if j < 0 else j + 2
            continue
        if c == "'":
            j = i + 1
            while j < n and text[j] != "'":
                j += 2 if text[j] == "\\" else 1
            toks.append(("lit", text[i:j + 1], line))
            i = j + 1
            continue
        if c == "[":  # lexer char set
            j = i + 1
            while j < n and text[j] != "]":
                j += 2 if text[j] == "\\" else 1
            toks.append(("set", text[i:j + 1], line))
            i = j + 1
            continue
        if c == "{":  # action / predicate: balanced braces
            depth, j = 0, i
            while j < n:
                if text[j] == "{":
                    depth += 1
                elif text[j] == "}":
                    depth -= 1
                    if depth == 0:
                        break
                elif text[j] == "'" or text[j] == '"':
                    q = text[j]
                    j += 1
                    while j < n and text[j] != q:
                        j += 2 if text[j] == "\\" else 1
                j += 1
            body = text[i:j + 1]
            line += body.count("\n")
            i = j + 1
            if i < n and text[i] == "?":
                toks.append(("pred", body, line))
                i += 1
            else:
                toks.append(("action", body, line))
            continue
        m = re.match(r"[A-Za-z_][A-Za-z_0-9]*", text[i:])
        if m:
            toks.append(("id", m.group(0), line))
            i += len(m.group(0))
            continue
        if text.startswith("->", i):
            toks.append(("op", "->", line))
            i += 2
            continue
        if text.startswith("..", i):
            toks.append(("op", "..", line))
            i += 2
            continue
        toks.append(("op", c, line))
        i += 1
    return toks


@dataclass
class Elem:
    kind: str  # rule token lit group set any
    value: str
    quant: str = ""  # '' ? * +
    alts: list = field(default_factory=list)  # for group: list[list[Elem]]
    negated: bool = False

    def __repr__(self) -> str:
        if self.kind == "group":
            return "(" + " | ".join(" ".join(map(repr, a)) for a in self.alts) + ")" + self.quant
        return ("~" if self.negated else "") + self.value + self.quant


@dataclass
class Rule:
    name: str
    alts: list  # list[list[Elem]]
    line: int
    is_lexer: bool
    fragment: bool = False
    commands: list = field(default_factory=list)  # lexer commands per alt (strings)
    actions: list = field(default_factory=list)  # action / predicate bodies


class Grammar:
    def __init__(self, text: str, path: str) -> None:
        self.path = path
        self.rules: dict[str, Rule] = {}
        self.order: list[str] = []
        self._parse(_tokenize(text))

    def _parse(self, toks: list[tuple[str, str, int]]) -> None:
        i = 0
        n = len(toks)

        def skip_header(i: int) -> int:
            # grammar X; options {...} tokens {...} import ...; mode X;
            while i < n:
                k, v, ln = toks[i]
                if k == "id" and v in ("lexer", "parser", "grammar"):
                    while i < n and toks[i][1] != ";":
                        i += 1
                    i += 1
                elif k == "id" and v in ("options", "tokens", "channels") and i + 1 < n and toks[i + 1][0] == "action":
                    i += 2
                elif k == "id" and v in ("import", "mode"):
                    while i < n and toks[i][1] != ";":
                        i += 1
                    i += 1
                elif k == "op" and v == "@":
                    while i < n and toks[i][0] != "action":
                        i += 1
                    i += 1
                else:
                    return i
            return i

        while i < n:
            i = skip_header(i)
            if i >= n:
                break
            frag = False
            k, v, ln = toks[i]
            if k == "id" and v == "fragment":
                frag = True
                i += 1
                k, v, ln = toks[i]
            if k != "id":
                raise AnalysisError(f"{self.path}:{ln}: rule name expected, got {v!r}")
            name = v
            i += 1
            # optional: returns / locals / options - not used by these grammars
            if toks[i][1] != ":":
                raise AnalysisError(f"{self.path}:{toks[i][2]}: ':' expected after rule {name}")
            i += 1
            rule = Rule(name, [], ln, name[:1].isupper(), frag)
            alts, i = self._alts(toks, i, rule, stop={";"})
            rule.alts = alts
            if toks[i][1] != ";":
                raise AnalysisError(f"{self.path}:{toks[i][2]}: ';' expected at end of rule {name}")
            i += 1
            self.rules[name] = rule
            self.order.append(name)

    def _alts(self, toks, i, rule: Rule, stop: set[str]):
        alts: list[list[Elem]] = [[]]
        n = len(toks)
        while i < n:
            k, v, ln = toks[i]
            if k == "op" and v in stop:
                break
            if k == "op" and v == "|":
                alts.append([])
                i += 1
                continue
            if k == "op" and v == "->":
                # lexer commands up to | or ;
                j = i + 1
                cmd = []
                depth = 0
                while j < n and not (toks[j][0] == "op" and toks[j][1] in ("|", ";") and depth == 0):
                    if toks[j][1] == "(":
                        depth += 1
                    if toks[j][1] == ")":
                        depth -= 1
                    cmd.append(toks[j][1])
                    j += 1
                rule.commands.append(" ".join(cmd))
                i = j
                continue
            if k in ("action", "pred"):
                rule.actions.append(v)
                i += 1
                continue
            neg = False
            if k == "op" and v == "~":
                neg = True
                i += 1
                k, v, ln = toks[i]
            el: Optional[Elem] = None
            if k == "op" and v == "(":
                sub, i = self._alts(toks, i + 1, rule, stop={")"})
                i += 1  # ')'
                el = Elem("group", "", alts=sub, negated=neg)
            elif k == "id":
                # label: x=rule / x+=rule
                if i + 1 < n and toks[i + 1][1] == "=" or (i + 2 < n and toks[i + 1][1] == "+" and toks[i + 2][1] == "="):
                    i += 2 if toks[i + 1][1] == "=" else 3
                    continue
                el = Elem("token" if v[:1].isupper() else "rule", v, negated=neg)
                i += 1
            elif k == "lit":
                el = Elem("lit", v, negated=neg)
                i += 1
                if i + 1 < n and toks[i][1] == ".." and toks[i + 1][0] == "lit":
                    el = Elem("set", v + ".." + toks[i + 1][1], negated=neg)
                    i += 2
            elif k == "set":
                el = Elem("set", v, negated=neg)
                i += 1
            elif k == "op" and v == ".":
                el = Elem("any", ".", negated=neg)
                i += 1
            elif k == "op" and v == "<":
                # element options <assoc=right>
                while i < n and toks[i][1] != ">":
                    i += 1
                i += 1
                continue
            elif k == "op" and v == "#":
                i += 2
                continue
            else:
                raise AnalysisError(f"{self.path}:{ln}: unexpected {v!r} in rule {rule.name}")
            while i < n and toks[i][0] == "op" and toks[i][1] in ("?", "*", "+"):
                if toks[i][1] == "?" and el.quant in ("*", "+", "?"):
                    i += 1  # non-greedy marker
                    continue
                el.quant = toks[i][1] if not el.quant else "*"
                i += 1
            alts[-1].append(el)
        return alts, i

    # ----------------------------------------------------------------- queries
    def refs(self, name: str) -> set[str]:
        """Parser rules referenced by rule `name`."""
        out: set[str] = set()

        def walk(alts):
            for a in alts:
                for e in a:
                    if e.kind == "rule":
                        out.add(e.value)
                    elif e.kind == "group":
                        walk(e.alts)

        walk(self.rules[name].alts)
        return out

    def elements(self, name: str) -> list[Elem]:
        out: list[Elem] = []

        def walk(alts):
            for a in alts:
                for e in a:
                    if e.kind == "group":
                        walk(e.alts)
                    else:
                        out.append(e)

        walk(self.rules[name].alts)
        return out

    def reachable(self, roots: list[str]) -> set[str]:
        seen: set[str] = set()
        todo = list(roots)
        while todo:
            r = todo.pop()
            if r in seen or r not in self.rules:
                continue
            seen.add(r)
            todo.extend(self.refs(r))
        return seen

    def token_literal(self, tok: str) -> Optional[str]:
        """The text of a lexer token defined by one quoted literal (possibly with commands)."""
        r = self.rules.get(tok)
        if r is None:
            return None
        if len(r.alts) == 1 and len(r.alts[0]) == 1 and r.alts[0][0].kind == "lit" and not r.alts[0][0].quant:
            lit = r.alts[0][0].value
            return lit[1:-1].replace("\\'", "'").replace("\\\\", "\\")
        return None


def load(eng, which: str) -> Grammar:
    rel = f"language/Fandango{which}.g4"
    return Grammar(eng.read_text(rel), rel)
