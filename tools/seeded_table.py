#!/venv/bin/python -S -I
"""Prints the DESIGN.md section 9.6 table from seeded/*/meta.json and a full run of tools/run_seeded.py (seeded/RESULTS.md)."""
import json
import os
import re
import sys

VERIF = os.path.dirname(os.path.dirname(os.path.abspath(__file__)))
# what the own-property check said the first time it was run on the change (before any strengthening)
FIRST = {
    "C01-A": "caught", "C01-B": "missed", "C02-A": "missed", "C02-B": "missed", "C03-A": "caught", "C03-B": "missed", "C04-A": "caught", "C04-B": "missed (C12: exit 2)",
    "C06-A": "missed", "C06-B": "missed", "C07-A": "missed", "C07-B": "caught", "C08-A": "missed", "C08-B": "missed", "C09-A": "missed", "C09-B": "caught",
    "C10-A": "missed", "C10-B": "missed", "C11-A": "missed", "C11-B": "missed (C09 caught)", "C12-A": "exit 2", "C12-B": "caught", "C14-A": "missed", "C14-B": "missed",
    "C15-A": "caught", "C15-B": "missed", "C16-A": "missed (C10 caught)", "C16-B": "exit 2", "C17-A": "missed", "C17-B": "missed", "C18-A": "caught", "C18-B": "missed",
    "C20-A": "missed", "C20-B": "missed",
    # third wave (after the rules had been strengthened on the first two) and the first changes for the new C19 check
    "C01-C": "caught", "C01-D": "missed", "C02-C": "missed", "C02-D": "caught", "C03-C": "caught", "C03-D": "missed", "C07-C": "caught", "C07-D": "missed (C02 caught)",
    "C10-C": "caught", "C10-D": "missed", "C12-C": "caught", "C12-D": "missed", "C19-A": "missed", "C19-B": "missed",
    # fourth wave
    "C04-C": "caught", "C04-D": "missed (C07, C11 caught)", "C09-C": "caught", "C09-D": "missed", "C11-C": "missed (C10 caught)", "C11-D": "missed",
    "C06-C": "missed (same construct as the known finding)", "C06-D": "missed (same construct as the known finding)",
    "C08-C": "missed", "C08-D": "caught", "C15-C": "missed", "C15-D": "caught", "C17-C": "caught", "C17-D": "missed",
    "C20-C": "missed", "C20-D": "missed",
    "C18-C": "caught", "C18-D": "caught",
    "C14-C": "missed", "C14-D": "caught", "C16-C": "missed", "C16-D": "caught",
    # fifth wave
    "C10-E": "missed", "C10-F": "caught",
    "C01-E": "caught", "C01-F": "missed (C16 caught)", "C02-E": "missed", "C02-F": "missed", "C03-E": "missed", "C03-F": "missed",
    "C07-E": "missed (C09, C11 caught)", "C07-F": "caught", "C12-E": "caught", "C12-F": "missed", "C19-C": "missed", "C19-D": "exit 2",
    # sixth wave
    "C04-E": "missed (C10, C12 caught)", "C04-F": "missed", "C08-E": "caught", "C08-F": "missed (C18 caught)", "C09-E": "caught", "C09-F": "caught",
    "C11-E": "missed (C17 caught, C03 exit 2)", "C11-F": "missed (C07 caught)", "C15-E": "caught", "C15-F": "caught", "C16-E": "exit 2 (C18 caught)", "C16-F": "caught",
    "C17-E": "caught", "C17-F": "caught", "C20-E": "missed", "C20-F": "exit 2",
    # seventh wave (session 4)
    "C02-G": "caught", "C02-H": "missed", "C03-G": "caught", "C03-H": "caught", "C06-E": "caught", "C06-F": "missed (same construct as the known finding)",
    "C11-G": "caught", "C14-E": "caught", "C14-F": "caught", "C18-E": "caught", "C18-F": "caught", "C19-E": "caught", "C20-G": "missed", "C20-H": "missed",
}


def main() -> int:
    rows = {}
    for line in open(os.path.join(VERIF, "seeded", "RESULTS.md")):
        m = re.match(r"\| (C\d\d-[A-H]) \| (C\d\d) \| ([^|]+) \| ([^|]*) \| (.*) \|$", line.rstrip())
        if m:
            rows[m.group(1)] = m.groups()
    print("| change | what was changed (one line) | needs | first run | now: rule(s) of the own check | also reported by |")
    print("|---|---|---|---|---|---|")
    for sid in sorted(rows):
        _, prop, own, others, first = rows[sid]
        meta = json.load(open(os.path.join(VERIF, "seeded", sid, "meta.json")))
        what = re.sub(r"\s+", " ", meta["summary"]).split(". ")[0][:150].replace("|", "/")
        needs = re.sub(r"\s+", " ", meta.get("needs_to_manifest", "")).split(". ")[0][:110].replace("|", "/")
        own_rules = sorted(set(re.findall(r"\bR" + prop[1:] + r"-[a-z]\b", first)))
        other = [o for o in re.sub(r"\(.*?\)", "", others).split(",") if o.strip() and o.strip() != prop]
        print(f"| {sid} | {what} | {needs} | {FIRST.get(sid, '?')} | {own.strip()}: {', '.join(own_rules) or '-'} | {', '.join(x.strip() for x in other) or '-'} |")
    return 0


if __name__ == "__main__":
    sys.exit(main())
