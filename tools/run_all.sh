#!/bin/bash
# Runs every registered check (tier = $1, default quick) and prints one line per property.
cd "$(dirname "$0")/.." || exit 2
tier="${1:-quick}"
rc=0
for p in $(/venv/bin/python -S -I -c "import json;print(' '.join(c['property_id'] for c in json.load(open('MANIFEST.json'))['checks']))"); do
  out=$(/venv/bin/python -S -I tools/fdg_static/check.py "$p" --tier "$tier" 2>&1); e=$?
  echo "$p exit=$e $(echo "$out" | head -1 | cut -c1-100) $(echo "$out" | grep -c KNOWN-FINDING) known"
  [ $e -ne 0 ] && { rc=1; echo "$out" | grep "VIOLATION\|ANALYSIS-ERROR" | head -5; }
done
exit $rc
